#!/usr/bin/env python3
"""Development tool: run the registered quick checks against the seeded property-breaking changes kept
under /verif/seeded/<name>/ (patch.diff, demo.py, meta.json).

For every selected change: a fresh scratch worktree of /repo HEAD (outside /repo and /verif), the patch
applied there, the quick check of the property it breaks run with VF_REPO pointing at it, the worktree
removed again.  (Equivalent to `git -C /repo apply` + check + `git -C /repo checkout -- .`, but /repo is
never touched, so other work can go on; use --in-place for exactly that procedure.)

usage: tools/seeded.py [name ...] [--scale F] [--demo] [--in-place] [--first]
  --demo        also run demo.py against the patched and the clean tree (expects exit 1 / exit 0)
"""
import json
import os
import subprocess
import sys

HERE = os.path.dirname(os.path.dirname(os.path.abspath(__file__)))
REPO = "/repo"


def sh(*a, **kw):
    kw.setdefault("env", dict(os.environ, VF_NO_EVIDENCE="1"))  # evidence files describe the clean tree only
    return subprocess.run(a, capture_output=True, text=True, **kw)


def main():
    args = [a for a in sys.argv[1:] if not a.startswith("--")]
    scale = "1"
    if "--scale" in sys.argv:
        scale = sys.argv[sys.argv.index("--scale") + 1]
        args = [a for a in args if a != scale]
    in_place = "--in-place" in sys.argv
    root = os.path.join(HERE, "seeded")
    names = sorted(d for d in os.listdir(root) if os.path.isdir(os.path.join(root, d)))
    if args:
        names = [n for n in names if n in args or any(n.startswith(a) for a in args)]
    if in_place and sh("git", "-C", REPO, "status", "--porcelain", "--untracked-files=no").stdout.strip():
        print("refusing: /repo has uncommitted changes")
        return 2
    for name in names:
        d = os.path.join(root, name)
        meta = json.load(open(os.path.join(d, "meta.json")))
        pid = meta["property"]
        patch = os.path.join(d, "patch.diff")
        tree = REPO if in_place else f"/tmp/wt_seedrun_{name}_{os.getpid()}"
        if not in_place:
            r = sh("git", "-C", REPO, "worktree", "add", "-q", "--detach", tree, "HEAD")
            if r.returncode:
                print(name, pid, "WORKTREE-FAILED", r.stderr[:200])
                continue
        pids = [pid] + list(meta.get("also_check", []))
        try:
            r = sh("git", "-C", tree, "apply", "--whitespace=nowarn", patch)
            if r.returncode:
                print(name, pid, "PATCH-DOES-NOT-APPLY", r.stderr[:200], flush=True)
                continue
            demo = ""
            if "--demo" in sys.argv:
                demo = f" demo(patched)={sh('/venv/bin/python', os.path.join(d, 'demo.py'), tree).returncode}"
            verdicts = []
            env = dict(os.environ, VF_NO_EVIDENCE="1", VF_REPO=tree)
            if "--first" in sys.argv:  # stop at the first violation (a yes/no table, much faster)
                env["VF_FIRST"] = "1"
                env["VF_REPLAY_OUT"] = os.path.join(tree, "replays_out")
            for p in pids:
                r = sh(os.path.join(HERE, "check"), p, "quick", "--scale", scale, "--no-shrink", env=env)
                buckets = sorted({l.split(" ")[0][7:] for l in r.stdout.splitlines() if l.startswith("bucket=")})
                verdict = {0: "MISSED", 1: "detected", 2: "HARNESS-ERROR"}.get(r.returncode, str(r.returncode))
                verdicts.append(f"{p}:{verdict} [{', '.join(buckets)[:260]}]")
                if r.returncode == 2:
                    print(r.stderr[-800:])
        finally:
            if in_place:
                sh("git", "-C", REPO, "checkout", "--", ".")
            else:
                sh("git", "-C", REPO, "worktree", "remove", "--force", tree)
            for p in pids:
                rd = os.path.join(HERE, "replays", p)
                for f in os.listdir(rd) if os.path.isdir(rd) else []:
                    if f.startswith("new_"):
                        os.unlink(os.path.join(rd, f))
        if "--demo" in sys.argv:
            demo += f" demo(clean)={sh('/venv/bin/python', os.path.join(d, 'demo.py'), REPO).returncode}"
        print(name, pid, "; ".join(verdicts) + demo, flush=True)
    return 0


if __name__ == "__main__":
    sys.exit(main())
