#!/usr/bin/env python3
"""Development tool: run the registered quick checks against the seeded property-breaking changes kept
under /verif/seeded/<name>/ (patch.diff, demo.py, meta.json).

For every selected change: apply it to /repo (git apply), run the quick check of the property it breaks,
undo it (git checkout -- .) straight afterwards, and report whether the check went red.

usage: tools/seeded.py [name ...] [--scale F] [--demo] [--all-checks]
  --demo        also run demo.py against the patched and the clean tree (expects exit 1 / exit 0)
"""
import json
import os
import subprocess
import sys

HERE = os.path.dirname(os.path.dirname(os.path.abspath(__file__)))
REPO = "/repo"


def sh(*a, **kw):
    return subprocess.run(a, capture_output=True, text=True, **kw)


def main():
    args = [a for a in sys.argv[1:] if not a.startswith("--")]
    scale = "1"
    if "--scale" in sys.argv:
        scale = sys.argv[sys.argv.index("--scale") + 1]
        args = [a for a in args if a != scale]
    root = os.path.join(HERE, "seeded")
    names = sorted(d for d in os.listdir(root) if os.path.isdir(os.path.join(root, d)))
    if args:
        names = [n for n in names if n in args or any(n.startswith(a) for a in args)]
    if sh("git", "-C", REPO, "status", "--porcelain", "--untracked-files=no").stdout.strip():
        print("refusing: /repo has uncommitted changes")
        return 2
    results = []
    for name in names:
        d = os.path.join(root, name)
        meta = json.load(open(os.path.join(d, "meta.json")))
        pid = meta["property"]
        patch = os.path.join(d, "patch.diff")
        r = sh("git", "-C", REPO, "apply", "--whitespace=nowarn", patch)
        if r.returncode:
            results.append((name, pid, "PATCH-DOES-NOT-APPLY " + r.stderr[:200]))
            print(*results[-1], flush=True)
            continue
        try:
            demo = ""
            if "--demo" in sys.argv:
                r1 = sh("/venv/bin/python", os.path.join(d, "demo.py"), REPO)
                demo = f" demo(patched)={r1.returncode}"
            pids = [pid] + [p for p in meta.get("also_check", [])]
            verdicts = []
            for p in pids:
                r = sh(os.path.join(HERE, "check"), p, "quick", "--scale", scale, "--no-shrink")
                buckets = sorted({l.split(" ")[0][7:] for l in r.stdout.splitlines() if l.startswith("bucket=")})
                verdict = {0: "MISSED", 1: "detected", 2: "HARNESS-ERROR"}.get(r.returncode, str(r.returncode))
                verdicts.append(f"{p}:{verdict} [{', '.join(buckets)[:260]}]")
                if r.returncode == 2:
                    print(r.stderr[-800:])
        finally:
            sh("git", "-C", REPO, "checkout", "--", ".")
            for p in pids:
                rd = os.path.join(HERE, "replays", p)
                for f in os.listdir(rd) if os.path.isdir(rd) else []:
                    if f.startswith("new_"):
                        os.unlink(os.path.join(rd, f))
        if "--demo" in sys.argv:
            r0 = sh("/venv/bin/python", os.path.join(d, "demo.py"), REPO)
            demo += f" demo(clean)={r0.returncode}"
        results.append((name, pid, "; ".join(verdicts) + demo))
        print(*results[-1], flush=True)
    assert not sh("git", "-C", REPO, "status", "--porcelain", "--untracked-files=no").stdout.strip()
    return 0


if __name__ == "__main__":
    sys.exit(main())
