#!/usr/bin/env python3
"""Development tool: systematic sensitivity measurement of the registered checks ("covered but not
killed").  It decides nothing about the properties; it tells which parts of the checks are decoration.

For one property:
  1. coverage  -- the quick check runs on the clean /repo with VF_COVER (sys.monitoring) at a small scale:
                  which library lines does each sub-check execute?
  2. mutants   -- small syntactic changes (comparison boundaries, arithmetic/bit operators, and/or,
                  dropped `not`, integer constants +-1, dropped `raise`, flipped `return True/False`) at
                  covered lines of the files the property is anchored in (properties.jsonl anchors.files),
                  a deterministic sample of at most --max of them
  3. kill run  -- each mutant is written into a scratch copy of /repo/buidl (under --scratch, removed at
                  the end), and ONLY the sub-checks that cover the changed line run against it
                  (VF_REPO, VF_FIRST=1: stop at the first violation, VF_NO_EVIDENCE=1)
  4. survivors -- optionally (--tests) the repository's test modules that import the changed file run
                  against the survivors; a survivor the tests kill is not "realistic" in the brief's sense

Output: one JSON line per mutant in --out (default /verif/docs/automutate/<ID>.jsonl) and a summary.
Survivors need reading: many are equivalent (unreachable boundary, error-message constant) or change
behaviour the property does not speak about.

usage: tools/automutate.py C15 [--max 80] [--workers 4] [--jobs 4] [--scale 1] [--tests] [--files a.py,b.py]
"""
import argparse
import ast
import concurrent.futures as cf
import glob
import hashlib
import json
import os
import shutil
import subprocess
import sys
import tempfile
import time

HERE = os.path.dirname(os.path.dirname(os.path.abspath(__file__)))
REPO = "/repo"

CMP = {ast.Lt: ast.LtE, ast.LtE: ast.Lt, ast.Gt: ast.GtE, ast.GtE: ast.Gt, ast.Eq: ast.NotEq,
       ast.NotEq: ast.Eq, ast.In: ast.NotIn, ast.NotIn: ast.In}
BIN = {ast.Add: ast.Sub, ast.Sub: ast.Add, ast.LShift: ast.RShift, ast.RShift: ast.LShift,
       ast.BitAnd: ast.BitOr, ast.BitOr: ast.BitAnd, ast.BitXor: ast.BitOr, ast.Mult: ast.FloorDiv,
       ast.FloorDiv: ast.Mult, ast.Mod: ast.FloorDiv}


def sites(tree):
    """[(node_index, lineno, variant, description)] in ast.walk order (stable for one source text)."""
    out = []
    in_func = set()
    for f in ast.walk(tree):
        if isinstance(f, (ast.FunctionDef, ast.AsyncFunctionDef)):
            for n in ast.walk(f):
                in_func.add(id(n))
    for i, n in enumerate(ast.walk(tree)):
        if id(n) not in in_func or not hasattr(n, "lineno"):
            continue
        ln = n.lineno
        if isinstance(n, ast.Compare):
            for j, op in enumerate(n.ops):
                if type(op) in CMP:
                    out.append((i, ln, f"cmp{j}", f"{type(op).__name__}->{CMP[type(op)].__name__}"))
        elif isinstance(n, (ast.BinOp, ast.AugAssign)):
            if type(n.op) in BIN and not (isinstance(n, ast.BinOp) and isinstance(n.left, ast.Constant)
                                          and isinstance(n.left.value, (str, bytes))):
                out.append((i, ln, "bin", f"{type(n.op).__name__}->{BIN[type(n.op)].__name__}"))
        elif isinstance(n, ast.BoolOp):
            out.append((i, ln, "bool", "And<->Or"))
        elif isinstance(n, ast.UnaryOp) and isinstance(n.op, ast.Not):
            out.append((i, ln, "not", "drop not"))
        elif isinstance(n, ast.Constant) and type(n.value) is int and abs(n.value) < 2**70:
            out.append((i, ln, "c+", f"{n.value}->{n.value + 1}"))
            if n.value != 0:
                out.append((i, ln, "c-", f"{n.value}->{n.value - 1}"))
        elif isinstance(n, ast.Raise):
            out.append((i, ln, "raise", "drop raise"))
        elif isinstance(n, ast.Return) and isinstance(n.value, ast.Constant) and type(n.value.value) is bool:
            out.append((i, ln, "ret", f"return {n.value.value}->{not n.value.value}"))
    return out


def mutate(src, index, variant):
    tree = ast.parse(src)
    target = None
    for i, n in enumerate(ast.walk(tree)):
        if i == index:
            target = n
            break
    n = target
    if variant.startswith("cmp"):
        j = int(variant[3:])
        n.ops[j] = CMP[type(n.ops[j])]()
    elif variant == "bin":
        n.op = BIN[type(n.op)]()
    elif variant == "bool":
        n.op = ast.Or() if isinstance(n.op, ast.And) else ast.And()
    elif variant == "c+":
        n.value += 1
    elif variant == "c-":
        n.value -= 1
    elif variant == "ret":
        n.value.value = not n.value.value
    elif variant in ("not", "raise"):
        class T(ast.NodeTransformer):
            def visit(self, node):
                if node is n:
                    if variant == "not":
                        return node.operand
                    return ast.copy_location(ast.Pass(), node)
                return self.generic_visit(node)
        tree = T().visit(tree)
    ast.fix_missing_locations(tree)
    return ast.unparse(tree) + "\n"


def sh(cmd, env=None, timeout=None, cwd=None):
    try:
        return subprocess.run(cmd, capture_output=True, text=True, env=env, timeout=timeout, cwd=cwd)
    except subprocess.TimeoutExpired as e:
        class R:
            returncode = 124
            stdout = (e.stdout or b"").decode() if isinstance(e.stdout, bytes) else (e.stdout or "")
            stderr = "timeout"
        return R()


def coverage(pid, scale):
    d = tempfile.mkdtemp(prefix="am_cov_")
    env = dict(os.environ, VF_COVER=d, VF_NO_EVIDENCE="1")
    r = sh([os.path.join(HERE, "check"), pid, "quick", "--scale", str(scale), "--no-shrink"], env=env)
    if r.returncode != 0:
        print(r.stdout[-2000:], r.stderr[-2000:])
        raise SystemExit("coverage run failed on the clean tree")
    per_line = {}  # (file, line) -> set(sub)
    for f in glob.glob(os.path.join(d, "*.json")):
        sub = os.path.basename(f).split(".")[1]
        for fn, ln in json.load(open(f)):
            per_line.setdefault((fn, ln), set()).add(sub)
    shutil.rmtree(d)
    return per_line


def anchored_files(pid):
    for line in open(os.path.join(HERE, "properties.jsonl")):
        p = json.loads(line)
        if p["id"] == pid:
            return [f for f in p["anchors"]["files"] if f.endswith(".py")]
    raise SystemExit("no such property")


def test_modules(rel):
    mod = os.path.basename(rel)[:-3]
    out = []
    for t in sorted(glob.glob(os.path.join(REPO, "buidl/test/test_*.py"))):
        b = os.path.basename(t)
        if b in ("test_multiwallet.py", "test_singlesweep.py"):
            continue
        txt = open(t).read()
        if f"buidl.{mod} " in txt or f"buidl.{mod}\n" in txt or f"from buidl import" in txt or b == f"test_{mod}.py":
            out.append("buidl/test/" + b)
    return out


def main():
    ap = argparse.ArgumentParser()
    ap.add_argument("pid")
    ap.add_argument("--max", type=int, default=80)
    ap.add_argument("--workers", type=int, default=4)
    ap.add_argument("--jobs", type=int, default=4)
    ap.add_argument("--scale", type=float, default=1.0)
    ap.add_argument("--cov-scale", type=float, default=0.1)
    ap.add_argument("--tests", action="store_true")
    ap.add_argument("--files")
    ap.add_argument("--kinds", help="comma list of variants to keep (cmp,bin,bool,not,c,raise,ret)")
    ap.add_argument("--scratch", default="/tmp")
    ap.add_argument("--out")
    a = ap.parse_args()
    pid = a.pid
    out_path = a.out or os.path.join(HERE, "docs", "automutate", f"{pid}.jsonl")
    os.makedirs(os.path.dirname(out_path), exist_ok=True)

    t0 = time.time()
    per_line = coverage(pid, a.cov_scale)
    files = a.files.split(",") if a.files else anchored_files(pid)
    files = [f for f in files if os.path.exists(os.path.join(REPO, f)) and not f.endswith("cecc.py")]
    cands = []
    for rel in files:
        src = open(os.path.join(REPO, rel)).read()
        for idx, ln, variant, desc in sites(ast.parse(src)):
            subs = per_line.get((rel, ln))
            if not subs:
                continue
            if a.kinds and not any(variant.startswith(k) for k in a.kinds.split(",")):
                continue
            cands.append({"file": rel, "line": ln, "index": idx, "variant": variant, "desc": desc,
                          "subs": sorted(subs), "text": src.splitlines()[ln - 1].strip()[:160]})
    cands.sort(key=lambda c: hashlib.sha256(f"{c['file']}:{c['index']}:{c['variant']}".encode()).hexdigest())
    total = len(cands)
    cands = cands[: a.max]
    print(f"{pid}: coverage {time.time() - t0:.0f}s, {len(per_line)} covered lines, {total} mutation sites in "
          f"{files}, running {len(cands)}", flush=True)

    root = tempfile.mkdtemp(prefix=f"am_{pid}_", dir=a.scratch)
    slots = []
    for w in range(a.workers):
        d = os.path.join(root, f"w{w}")
        shutil.copytree(os.path.join(REPO, "buidl"), os.path.join(d, "buidl"),
                        ignore=shutil.ignore_patterns("__pycache__"))
        slots.append(d)
    free = list(slots)
    import threading
    lock = threading.Lock()

    def run(c):
        with lock:
            d = free.pop()
        path = os.path.join(d, c["file"])
        orig = open(path).read()
        try:
            try:
                new = mutate(orig, c["index"], c["variant"])
                compile(new, path, "exec")
            except Exception as e:  # noqa
                c["result"] = "unbuildable"
                c["note"] = str(e)[:200]
                return c
            open(path, "w").write(new)
            env = dict(os.environ, VF_REPO=d, VF_FIRST="1", VF_NO_EVIDENCE="1", VF_CASE_CPU_LIMIT="120",
                       VF_REPLAY_OUT=os.path.join(d, "replays"), VF_PROP_CAP="400")
            cmd = [os.path.join(HERE, "check"), pid, "quick", "--no-shrink", "--jobs", str(a.jobs),
                   "--scale", str(a.scale)]
            for s in c["subs"]:
                cmd += ["--sub", s]
            t1 = time.time()
            r = sh(cmd, env=env, timeout=1500)
            c["wall"] = round(time.time() - t1, 1)
            buckets = sorted({l.split(" ")[0][7:] for l in r.stdout.splitlines() if l.startswith("bucket=")})
            c["buckets"] = buckets[:4]
            c["result"] = {0: "SURVIVED", 1: "killed", 2: "harness_error", 124: "timeout"}.get(r.returncode, str(r.returncode))
            if r.returncode == 2:
                c["note"] = (r.stderr or r.stdout)[-400:]
            if c["result"] == "SURVIVED" and a.tests:
                mods = test_modules(c["file"])
                tr = sh(["/venv/bin/python", "-m", "pytest", "-x", "-q", "-p", "no:cacheprovider", "-n", "4",
                         "-k", "not test_socket_guard and not test_p2tr_validation"] + mods,
                        env=dict(os.environ, PYTHONPATH=d, PYTHONDONTWRITEBYTECODE="1"), cwd=d, timeout=1800)
                c["tests"] = "pass" if tr.returncode == 0 else "kill"
                if tr.returncode != 0:
                    c["tests_note"] = tr.stdout[-300:]
            return c
        finally:
            open(path, "w").write(orig)
            with lock:
                free.append(d)

    done = []
    try:
        with cf.ThreadPoolExecutor(a.workers) as ex, open(out_path, "w") as out:
            for c in ex.map(run, cands):
                done.append(c)
                out.write(json.dumps(c, sort_keys=True) + "\n")
                out.flush()
                if c["result"] != "killed":
                    print(f"  {c['result']:9s} {c['file']}:{c['line']} {c['desc']:22s} | {c['text'][:90]}"
                          + (f" | tests:{c['tests']}" if "tests" in c else ""), flush=True)
    finally:
        shutil.rmtree(root, ignore_errors=True)
    k = sum(1 for c in done if c["result"] == "killed")
    s = sum(1 for c in done if c["result"] == "SURVIVED")
    print(f"{pid}: {len(done)} mutants, {k} killed, {s} survived, {len(done) - k - s} other; "
          f"{time.time() - t0:.0f}s; details {out_path}")
    return 0


if __name__ == "__main__":
    sys.exit(main())
