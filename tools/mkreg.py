#!/usr/bin/env python3
"""dev tool: write a regression replay file. usage: mkreg.py PID SUB NAME '<case json>' """
import json, os, sys
pid, sub, name, case = sys.argv[1:5]
d = f"/verif/replays/{pid}"; os.makedirs(d, exist_ok=True)
json.dump({"property": pid, "sub": sub, "bucket": name, "detail": "regression case", "case": json.loads(case)},
          open(f"{d}/reg_{sub}_{name}.json", "w"), indent=1, sort_keys=True)
