#!/usr/bin/env python3
"""dev tool: addfinding.py PID fixed|known <commit|-> '<sub/bucket glob>' '<what failed>'"""
import json, sys
pid, status, commit, bucket, what = sys.argv[1:6]
p = '/verif/known_findings.json'
d = json.load(open(p))
e = {"property": pid, "status": status, "bucket": bucket}
if status == "fixed":
    e["commit"] = commit
    e["description"] = f"fixed: property={pid} {commit} {what}"
else:
    e["description"] = what
d["findings"].append(e)
json.dump(d, open(p, "w"), indent=1)
