#!/usr/bin/env python3
"""dev tool: validate MANIFEST.json and evidence/*.json against the schemas (run with python3-vt)"""
import json, glob, sys, jsonschema
ok = True
jsonschema.validate(json.load(open('/verif/MANIFEST.json')), json.load(open('/root/.vp/MANIFEST.schema.json')))
es = json.load(open('/root/.vp/EVIDENCE.schema.json'))
for f in sorted(glob.glob('/verif/evidence/*.json')):
    try:
        jsonschema.validate(json.load(open(f)), es)
    except Exception as e:
        ok = False; print("INVALID", f, str(e)[:300])
print("valid" if ok else "INVALID")
sys.exit(0 if ok else 1)
