#!/usr/bin/env python3
"""Development tool (not a registered check): sensitivity self-test.

Each mutant is a small textual change to a scratch copy of /repo that breaks one property while
keeping the code importable.  For every selected mutant the quick check of its property is run with
VF_REPO pointing at the scratch copy; the check must exit 1.

usage: tools/mutants.py [PID ...] [--scale F] [--list]
"""
import os
import shutil
import subprocess
import sys
import tempfile

HERE = os.path.dirname(os.path.dirname(os.path.abspath(__file__)))

# (property, name, file, old, new)
MUTANTS = [
    ("C01", "no_low_s", "buidl/pecc.py", "        if s > N // 2:\n            s = N - s\n", ""),
    ("C01", "verify_no_range_check", "buidl/pecc.py",
     "        if not (0 < sig.r < N and 0 < sig.s < N):\n            return False\n", ""),
    ("C01", "der_strip_bug", "buidl/pecc.py", "        if sbin[0] >= 128:\n            sbin = b\"\\x00\" + sbin",
     "        if sbin[0] > 128:\n            sbin = b\"\\x00\" + sbin"),
    ("C01", "nonce_ignores_secret", "buidl/pecc.py",
     "        secret_bytes = int_to_big_endian(self.secret, 32)\n        s256 = hashlib.sha256",
     "        secret_bytes = int_to_big_endian(self.secret % 2**255, 32)\n        s256 = hashlib.sha256"),
    ("C02", "no_nonce_flip", "buidl/pecc.py", "            k = N - k\n            # recalculate R", "            k = k\n            # recalculate R"),
    ("C02", "accept_odd_R", "buidl/pecc.py", "        if result.parity:\n            return False\n", ""),
    ("C02", "s_ge_n_allowed", "buidl/pecc.py", "        if s >= N:\n            raise ValueError", "        if s >= 2**256:\n            raise ValueError"),
    ("C03", "rmul_mod_p", "buidl/pecc.py", "        coef = coefficient % N\n", "        coef = coefficient % P\n"),
    ("C03", "sec_parity_swapped_for_x_lt_2_128", "buidl/pecc.py",
     "            if self.parity:\n                return b\"\\x03\" + x",
     "            if self.parity or self.x.num < 2**20:\n                return b\"\\x03\" + x"),
    ("C03", "no_curve_check", "buidl/pecc.py", "        if self.y**2 != self.x**3 + a * x + b:", "        if False:"),
    ("C04", "varint_boundary", "buidl/helper.py", "    if i < 0xFD:\n        return bytes([i])", "    if i <= 0xFD:\n        return bytes([i])"),
    ("C04", "pushdata2_boundary", "buidl/script.py", "                elif length > 75 and length < 0x100:", "                elif length > 75 and length <= 0x100:"),
    ("C04", "txid_includes_witness", "buidl/tx.py", "        return hash256(self.serialize_legacy())[::-1]", "        return hash256(self.serialize())[::-1]"),
    ("C04", "fetcher_no_check", "buidl/tx.py", "            if computed != tx_id:", "            if False:"),
    ("C05", "bip143_amount_after_sequence", "buidl/tx.py",
     "        s += int_to_little_endian(tx_in.value(network=self.network), 8)\n        # add the sequence of the input in 4 bytes, little endian\n        s += tx_in.sequence.serialize()\n",
     "        s += tx_in.sequence.serialize()\n        s += int_to_little_endian(tx_in.value(network=self.network), 8)\n"),
    ("C05", "cache_hash_outputs", "buidl/tx.py",
     "        # always recomputed: the outputs may have changed since the last call\n        all_outputs = b\"\"\n        for tx_out in self.tx_outs:\n            all_outputs += tx_out.serialize()\n        self._hash_outputs",
     "        if self._hash_outputs is not None:\n            return self._hash_outputs\n        all_outputs = b\"\"\n        for tx_out in self.tx_outs:\n            all_outputs += tx_out.serialize()\n        self._hash_outputs"),
    ("C05", "taproot_spend_type_annex", "buidl/tx.py", "            spend_type += 1\n", "            spend_type += 0\n"),
    ("C05", "legacy_single_blank_wrong", "buidl/tx.py", 's += b"\\xff\\xff\\xff\\xff\\xff\\xff\\xff\\xff\\x00"', 's += b"\\xff\\xff\\xff\\xff\\xff\\xff\\xff\\x7f\\x00"'),
    ("C06", "checksig_pushes_1_on_failure", "buidl/op.py",
     "    if point.verify(z, sig):\n        stack.append(encode_num(1))\n    else:\n        stack.append(encode_num(0))\n    return True\n\n\ndef op_checksigverify(",
     "    if point.verify(z, sig):\n        stack.append(encode_num(1))\n    else:\n        stack.append(encode_num(1))\n    return True\n\n\ndef op_checksigverify("),
    ("C06", "no_cb_parity_check", "buidl/script.py", "                        if tweak_point.parity != control_block.parity:", "                        if False:"),
    ("C06", "no_wscript_hash_check", "buidl/script.py", "                    if s256 != sha256(witness_script):", "                    if False:"),
    ("C06", "multisig_no_fail_branch", "buidl/op.py",
     "            else:\n                # ran out of points without finding one that verifies this sig\n                print(\"signatures no good or not in right order\")\n                return False\n", ""),
    ("C06", "scriptsig_rule_removed_for_p2tr", "buidl/tx.py", "script_pubkey.is_p2wsh() or script_pubkey.is_p2tr():", "script_pubkey.is_p2wsh():"),
    ("C07", "sub_operand_order", "buidl/op.py", "    stack.append(encode_num(element2 - element1))", "    stack.append(encode_num(element1 - element2))"),
    ("C07", "within_inclusive", "buidl/op.py", "    if element >= minimum and element < maximum:", "    if element >= minimum and element <= maximum:"),
    ("C07", "cltv_le", "buidl/op.py", "    if locktime < stack_locktime:\n        return False\n    return True\n\n\ndef op_checksequenceverify", "    if locktime <= stack_locktime:\n        return False\n    return True\n\n\ndef op_checksequenceverify"),
    ("C07", "if_ignores_nesting", "buidl/op.py", "        elif num_endifs_needed == 1 and item == 103:\n            current_array = false_items\n        elif item == 104:\n            if num_endifs_needed == 1:\n                found = True\n                break\n            else:\n                num_endifs_needed -= 1\n                current_array.append(item)\n        else:\n            current_array.append(item)\n    if not found:\n        return False\n    element = stack.pop()\n    if decode_num(element) == 0:\n        items[:0] = false_items",
     "        elif item == 103:\n            current_array = false_items\n        elif item == 104:\n            if num_endifs_needed == 1:\n                found = True\n                break\n            else:\n                num_endifs_needed -= 1\n                current_array.append(item)\n        else:\n            current_array.append(item)\n    if not found:\n        return False\n    element = stack.pop()\n    if decode_num(element) == 0:\n        items[:0] = false_items"),
    ("C07", "encode_num_sign", "buidl/op.py", "    elif negative:\n        result[-1] |= 0x80", "    elif negative and len(result) < 3:\n        result[-1] |= 0x80"),
    ("C08", "hardened_boundary", "buidl/hd.py", "        if index >= 0x80000000:\n            # the message data is the private key secret", "        if index > 0x80000000:\n            # the message data is the private key secret"),
    ("C08", "child_fingerprint", "buidl/hd.py", "        parent_fingerprint = self.fingerprint()\n        # child number is the index\n        child_number = index\n        # return a new HDPrivateKey", "        parent_fingerprint = HDPublicKey(private_key.point, chain_code, depth, b'', 0).fingerprint()\n        # child number is the index\n        child_number = index\n        # return a new HDPrivateKey"),
    ("C08", "combine_paths_drops_component", "buidl/blinding.py", '    return f"{first_path}/{second_path[2:]}"', '    return f"{first_path}/{second_path[2:]}".replace("/0/", "/")'),
    ("C08", "pub_child_allows_2_31", "buidl/hd.py", "        if index >= 0x80000000:\n            raise ValueError(\"child number should always be less than 2^31\")", "        if index > 0x80000000:\n            raise ValueError(\"child number should always be less than 2^31\")"),
    ("C12", "no_branch_sort", "buidl/taproot.py", "        if left_hash < right_hash:\n            return hash_tapbranch(left_hash + right_hash)", "        if True:\n            return hash_tapbranch(left_hash + right_hash)"),
    ("C12", "tweak_uses_unnormalised_key", "buidl/pecc.py", "        external_key = self.even_point() + t", "        external_key = self + t"),
    ("C12", "cb_merkle_root_no_sort", "buidl/taproot.py", "            if current < h:\n                current = hash_tapbranch(current + h)", "            if True:\n                current = hash_tapbranch(current + h)"),
    ("C12", "priv_tweak_no_even_secret", "buidl/pecc.py", "    def tweaked_key(self, merkle_root=b\"\"):\n        e = self.even_secret()", "    def tweaked_key(self, merkle_root=b\"\"):\n        e = self.secret"),
]


def main():
    args = [a for a in sys.argv[1:] if not a.startswith("--")]
    scale = "0.3"
    if "--scale" in sys.argv:
        scale = sys.argv[sys.argv.index("--scale") + 1]
        args = [a for a in args if a != scale]
    if "--list" in sys.argv:
        for m in MUTANTS:
            print(m[0], m[1])
        return
    sel = [m for m in MUTANTS if not args or m[0] in args or m[1] in args]
    results = []
    for pid, name, path, old, new in sel:
        tmp = tempfile.mkdtemp(prefix="vfmut_")
        try:
            shutil.copytree("/repo/buidl", os.path.join(tmp, "buidl"))
            fp = os.path.join(tmp, path)
            src = open(fp).read()
            if old not in src:
                results.append((pid, name, "PATTERN-NOT-FOUND"))
                continue
            open(fp, "w").write(src.replace(old, new, 1))
            env = dict(os.environ, VF_REPO=tmp, VF_NO_EVIDENCE="1")
            r = subprocess.run([os.path.join(HERE, "check"), pid, "quick", "--scale", scale, "--no-shrink"],
                               env=env, capture_output=True, text=True)
            buckets = sorted({l.split(" ")[0][7:] for l in r.stdout.splitlines() if l.startswith("bucket=")})
            verdict = {0: "MISSED", 1: "detected", 2: "HARNESS-ERROR"}.get(r.returncode, str(r.returncode))
            results.append((pid, name, verdict + " " + ", ".join(buckets)[:300]))
            if r.returncode == 2:
                print(r.stderr[-1500:])
        finally:
            shutil.rmtree(tmp, ignore_errors=True)
            for f in os.listdir(os.path.join(HERE, "replays", pid)) if os.path.isdir(os.path.join(HERE, "replays", pid)) else []:
                if f.startswith("new_"):
                    os.unlink(os.path.join(HERE, "replays", pid, f))
        print(*results[-1], flush=True)
    missed = [r for r in results if not r[2].startswith("detected")]
    print(f"\n{len(results) - len(missed)}/{len(results)} detected")
    for r in missed:
        print("NOT DETECTED:", *r)


if __name__ == "__main__":
    main()
