#!/bin/sh
# dev tool: the repository suite, fast. xdist breaks the pexpect-based top-level tests (also on the
# pinned tree), so those two files run serially. Expected: only the 15 test_socket_guard failures.
cd "${1:-/repo}" || exit 2
env -u BUIDL_VERIF /venv/bin/python -m pytest -q -p no:cacheprovider --timeout=900 -n 14 buidl 2>&1 | grep -E "^(FAILED|ERROR)|passed|failed" | grep -v socket_guard
env -u BUIDL_VERIF /venv/bin/python -m pytest -q -p no:cacheprovider --timeout=900 test_multiwallet.py test_singlesweep.py 2>&1 | grep -E "^(FAILED|ERROR)|passed|failed"
