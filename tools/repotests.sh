#!/bin/sh
# dev tool: the repository suite, fast. xdist breaks the pexpect-based top-level tests (also on the
# pinned tree, and they time out under heavy CPU load), so those two files are re-run serially.
# Expected: first run = 15 test_socket_guard failures + the 14 pexpect tests; second run = 14 passed.
cd "${1:-/repo}" || exit 2
env -u BUIDL_VERIF /venv/bin/python -m pytest -q -p no:cacheprovider --timeout=900 -n 14 2>&1 | grep -E "^(FAILED|ERROR)|passed|failed" | grep -v -E "socket_guard|test_multiwallet.py|test_singlesweep.py"
env -u BUIDL_VERIF /venv/bin/python -m pytest -q -p no:cacheprovider --timeout=900 test_multiwallet.py test_singlesweep.py 2>&1 | grep -E "^(FAILED|ERROR)|passed|failed"
