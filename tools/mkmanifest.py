#!/usr/bin/env python3
"""Regenerates /verif/MANIFEST.json from the table below (keeps it valid at all times)."""
import json, os, sys
HERE = os.path.dirname(os.path.dirname(os.path.abspath(__file__)))
sys.path.insert(0, HERE)
from tools.claims import CLAIMS, HOOK_COMMITS, READY

props = [json.loads(l) for l in open(os.path.join(HERE, "properties.jsonl"))]
checks, na = [], []
for p in props:
    pid = p["id"]
    c = CLAIMS.get(pid)
    if not c or pid not in READY or not os.path.exists(os.path.join(HERE, "vf", "props", pid.lower() + ".py")):
        na.append({"property_id": pid, "reason": (c or {}).get("na_reason", "check not built yet in this session; property-based testing applies (see DESIGN.md section 4) but no registered check exists")})
        continue
    checks.append({
        "property_id": pid,
        "quick_cmd": f"./check {pid} quick",
        "thorough_cmd": f"./check {pid} thorough",
        "evidence_file": f"/verif/evidence/{pid}.json",
        "replay_cmd_template": f"./check {pid} --replay {{path}}",
        "engine": "vf",
        "level_claimed": {"category": "exploration", "text": c["text"], "design_ref": f"DESIGN.md section 4 / {pid}"},
        "level_note": c["note"],
        "technique": c["technique"],
    })
m = {
    "version": 1,
    "setup_cmd": "/venv/bin/python -c 'import hypothesis' 2>/dev/null || /venv/bin/pip install --no-index --find-links /opt/veriftools/wheels hypothesis",
    "hooks": {
        "guard": "BUIDL_VERIF",
        "enable": "checks export BUIDL_VERIF=1 and import /repo's working tree directly (pure Python, nothing to build); no source hook is needed, randomness/network are stubbed in the harness process",
        "baseline_off_cmd": "cd /repo && env -u BUIDL_VERIF /venv/bin/python -m pytest -ra -q -p no:cacheprovider --timeout=900 --continue-on-collection-errors",
        "source_commits": HOOK_COMMITS,
        "add_only": True,
    },
    "engines": [{"name": "vf", "path": "/verif/vf", "serves_properties": [c["property_id"] for c in checks],
                 "kind_free_text": "Hypothesis-driven property-based testing with independent reference models as oracles, sharded over 16 processes; exhaustive enumeration for small finite domains; shrinking to JSON replay files"}],
    "checks": checks,
    "not_applicable": na,
    "notes": "All checks: exit 0 = held on everything explored, exit 1 + VIOLATION line per new failure bucket, exit 2 = harness error. VERIF_SEED selects the Hypothesis seed of every shard. Fixed defects are listed in known_findings.json (status fixed; they suppress nothing).",
}
json.dump(m, open(os.path.join(HERE, "MANIFEST.json"), "w"), indent=1)
print("checks:", [c["property_id"] for c in checks]); print("not_applicable:", [n["property_id"] for n in na])
