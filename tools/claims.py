HOOK_COMMITS = []
NOTE = ("Trusted: the reference models in /verif/vf/ref (self-tested against published vectors at start-up), "
        "Hypothesis' generators, CPython. Only the pure-Python backend (pecc/phash) is exercised; cecc.py is not executable here. "
        "Absence of violations is not established: evidence lists case counts, class histograms and which sub-checks were exhaustive.")
CLAIMS = {
 "C01": {"technique": "property-based differential testing (Hypothesis) against an independent RFC 6979/SEC1 ECDSA reference; mutation catalogue incl. constructed R.x>=n class",
         "text": "Generated (secret,digest) pairs and mutated (key,digest,r,s) tuples are compared with an independent ECDSA/RFC 6979/DER reference; low-S boundary window reached by steering the nonce. Exploration: thousands of cases per run, all mutation classes hit every run.",
         "note": NOTE},
 "C02": {"technique": "property-based differential testing (Hypothesis) against an independent BIP340 reference; mutation catalogue over 64-byte signatures; call-history check of the tag cache",
         "text": "Signatures for generated (secret,msg,aux) are compared byte-for-byte with an independent BIP340 implementation (all key/nonce parity classes every run); verification is compared with the reference verifier over a mutation catalogue (bit flips, range violations, non-curve R/pk, negated nonce). Exploration.",
         "note": NOTE},
 "C03": {"technique": "exhaustive enumeration of small prime fields/curves + property-based differential testing against an independent Jacobian secp256k1 implementation and SEC1/BIP340 decoders",
         "text": "Field and group axioms are checked EXHAUSTIVELY for every prime 5..61 (all pairs, all triples for p<=31, incl. order-2 points and infinity); secp256k1 operations and algebraic laws are compared with an independent implementation on generated scalars incl. 0, n, negatives, >2^256; encodings are decided by an independent decoder over a catalogue of invalid candidates.",
         "note": NOTE},
}
