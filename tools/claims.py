HOOK_COMMITS = []
NOTE = ("Trusted: the reference models in /verif/vf/ref (self-tested against published vectors at start-up), "
        "Hypothesis' generators, CPython. Only the pure-Python backend (pecc/phash) is exercised; cecc.py is not executable here. "
        "Absence of violations is not established: evidence lists case counts, class histograms and which sub-checks were exhaustive.")


def c(technique, text):
    return {"technique": technique, "text": text, "note": NOTE}


PBT = "property-based testing (Hypothesis, sharded over 16 processes)"
CLAIMS = {
 "C01": c(PBT + ": differential against an independent RFC 6979/SEC1 ECDSA reference; mutation catalogue incl. constructed R.x>=n class",
          "Generated (secret,digest) pairs and mutated (key,digest,r,s) tuples are compared with an independent ECDSA/RFC 6979/DER reference; low-S boundary window reached by steering the nonce. Exploration: thousands of cases per run, all mutation classes hit every run."),
 "C02": c(PBT + ": differential against an independent BIP340 reference; mutation catalogue over 64-byte signatures; call-history check of the tag cache",
          "Signatures for generated (secret,msg,aux) are compared byte-for-byte with an independent BIP340 implementation (all key/nonce parity classes every run); verification is compared with the reference verifier over a mutation catalogue (bit flips, range violations, non-curve R/pk, negated nonce). Exploration."),
 "C03": c("exhaustive enumeration of small prime fields/curves + " + PBT + " differential against an independent Jacobian secp256k1 implementation and SEC1/BIP340 decoders",
          "Field and group axioms are checked EXHAUSTIVELY for every prime 5..61 (all pairs, all triples for p<=31, incl. order-2 points and infinity); secp256k1 operations and algebraic laws are compared with an independent implementation on generated scalars incl. 0, n, negatives, >2^256; encodings are decided by an independent decoder over a catalogue of invalid candidates."),
 "C04": c(PBT + ": round-trip and differential against an independent wire-format serialiser; metamorphic txid relation; stubbed-server response catalogue for the fetcher",
          "Structured transactions covering every push-length class 0..520, varint widths and witness item sizes to 70000 bytes are serialised by an independent reference; parse/serialise must be byte-identical in both directions and the txid must be the stripped double-SHA256; witness-only changes keep the id, any non-witness change alters it; the fetcher (server stubbed) must raise or return a Tx hashing to the requested id for 14 response classes incl. non-canonical encodings and cache histories."),
 "C05": c(PBT + ": differential against independent legacy/BIP143/BIP341 digest implementations; generated edit/query histories on one Tx object (stateful)",
          "Every (algorithm, hash type) pair incl. SINGLE-out-of-range and annex is compared with reference digests written from Bitcoin Core / BIP143 / BIP341; histories interleave digest queries with edits of outputs, inputs, sequences, locktime, version and annex and require the digest of the current fields after every step."),
 "C06": c(PBT + ": spends built and signed through the library must verify; typed mutation catalogue + signature-free grammar must never verify; reference sighash/ECDSA/BIP340 recount valid signatures",
          "For 9 output types the library-signed spend must verify; every catalogue mutation that removes authorisation (recounted with the reference models) and every generated signature-free scriptSig/witness must yield false or an error."),
 "C07": c(PBT + ": differential against a reference interpreter written from Bitcoin Core's EvalScript (consensus flags); exhaustive number-codec sweep",
          "Single opcodes on generated stacks, grammar-generated programs up to 40 operations with nested conditionals and a transaction context, the script-number codec (exhaustive over all 0..2-byte strings quick / 0..3-byte thorough) and CLTV/CSV boundaries are compared with a reference interpreter."),
 "C08": c(PBT + ": differential against an independent BIP32 implementation; path-notation and composition metamorphic relations; exhaustive single-character substitution on sampled xkeys",
          "Every node of generated derivation paths (depth<=8, index edges) is compared with an independent BIP32 model (secret, point, chain code, depth, child number, fingerprint, xprv/xpub for all 20 SLIP-132 versions); public/private consistency, hardened refusal, path composition/notation and xpub blinding are checked."),
 "C09": c(PBT + ": differential against independent Base58Check/BIP173/BIP350 references; exhaustive single (and sampled/all-pairs double) substitutions on sampled addresses",
          "Encoders and decoders are compared with independent references for all witness versions x program lengths x networks; Base58Check acceptance iff checksum matches over mutated strings; every single substitution at every data position of sampled segwit addresses must be rejected by all three decoding entry points."),
 "C10": c(PBT + " over generated signing/combining histories (two independent orders per case) with the reference sighash/ECDSA recount as oracle; byte-level PSBT editor for injection",
          "PSBT serialise/parse fixpoint at every workflow stage incl. unknown pairs and global xpubs; two independent sign/combine histories must give byte-identical PSBTs and final transactions; finalisation succeeds iff |signers| >= m; corrupted partial signatures must be rejected on load."),
 "C11": c(PBT + ": honest multisig PSBTs plus a tampering catalogue, ground truth from independent BIP32/script models",
          "describe_basic_p2sh/p2wsh multisig summaries must satisfy the accounting identities and label change only when the reference derivation confirms it; every tampering of inputs must raise."),
 "C12": c(PBT + ": differential against an independent BIP341 model; exhaustive byte positions of control blocks for tampering",
          "Merkle root, tweak, output key/parity, tweaked secret and control blocks for generated trees (1..8 leaves, both key parities) equal the reference; sibling order does not matter; every byte position of the control block and leaf script is altered and must not reproduce key and parity."),
 "C13": c(PBT + ": MuSig protocol runs verified by an independent BIP340 verifier; exhaustive (k,n)<=5 subset/leaf bijection",
          "Aggregated signatures over generated key sets/nonces/messages verify under the reference verifier for plain and tweaked keys; omission/alteration of a partial never verifies; every k-subset owns exactly one leaf and its spend verifies."),
 "C14": c(PBT + ": differential against an independent BIP39 model and hashlib.pbkdf2_hmac; exhaustive word-list prefix table",
          "Entropy<->mnemonic for all five sizes, acceptance iff length valid and checksum matches (incl. 4-letter prefixes), seed/master key vs hashlib PBKDF2 + reference BIP32, vendored PBKDF2 vs hashlib over chunked reads."),
 "C15": c(PBT + ": all 136 (k,n) pairs with harness-owned randomness, independent SLIP39 model (RS1024, GF(256), Feistel); exhaustive GF(256) tables",
          "Any >=k shares recover, <k never do, mixing splits fails, share codec equals the reference packer, 1..3-word corruptions are rejected, encrypt/decrypt are inverse and equal the reference, GF(256) tables and interpolation identities hold exhaustively."),
 "C16": c(PBT + ": differential against Bitcoin Core's descriptor checksum and independent BIP32/P2WSH models; exhaustive single-character substitutions on sampled descriptors",
          "Descriptor text/checksum/round-trip, permutation invariance, address derivation for receive/change branches vs reference, and detection of every single-character substitution."),
 "C17": c("exhaustive enumeration of all partial Merkle trees with 1..10 leaves x all match sets + " + PBT + " for roots, tampering, headers, compact bits and retargeting against references",
          "All 2046 (n<=10, subset) proofs built by a reference CPartialMerkleTree builder validate and yield exactly the matched ids; tampered proofs that validate may only yield block ids; header/bits/retarget functions equal reference formulas."),
 "C18": c(PBT + ": differential against independent SipHash-2-4, MurmurHash3, Golomb-Rice/BIP158 and BIP37 models incl. a constructed equal-hash class",
          "Hash functions for every message length 0..70, Golomb coding, GCS construction/decoding/membership (incl. colliding elements), filter header chaining and bloom bit positions equal the references; no inserted element is ever reported absent."),
 "C19": c(PBT + ": round-trip and differential against struct-built reference layouts; corruption catalogue for envelopes",
          "Envelope round-trip and rejection of wrong magic/checksum/short payload; varint/varstr/fixed-width codecs across all width boundaries; each fixed-layout message equals the reference bytes in both directions."),
 "C20": c(PBT + ": round-trip for all CBOR/bc32 length classes and BCUR chunkings; rejection catalogue (permutation, omission, foreign part, substituted character)",
          "BCUR single/multi-part encodings reassemble exactly for payloads to 70000 bytes and chunk sizes 1..2000; out-of-order, missing, foreign or corrupted parts are rejected and never yield different data."),
}

# properties whose check is finished, reviewed by the lead and quiet on the unchanged tree
READY = ["C01", "C02", "C03", "C04", "C05", "C06", "C07", "C08", "C09", "C10", "C11", "C12", "C13", "C14",
         "C15", "C16", "C17", "C18", "C19", "C20"]
