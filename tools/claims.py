HOOK_COMMITS = []
NOTE = ("Trusted: the reference models in /verif/vf/ref (self-tested against published vectors at start-up), "
        "Hypothesis' generators, CPython. Only the pure-Python backend (pecc/phash) is exercised; cecc.py is not executable here. "
        "Absence of violations is not established: evidence lists case counts, class histograms and which sub-checks were exhaustive.")
CLAIMS = {
 "C01": {"technique": "property-based differential testing (Hypothesis) against an independent RFC 6979/SEC1 ECDSA reference; mutation catalogue incl. constructed R.x>=n class",
         "text": "Generated (secret,digest) pairs and mutated (key,digest,r,s) tuples are compared with an independent ECDSA/RFC 6979/DER reference; low-S boundary window reached by steering the nonce. Exploration: thousands of cases per run, all mutation classes hit every run.",
         "note": NOTE},
}
