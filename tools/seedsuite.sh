#!/bin/sh
# Development tool: confirm that a seeded change keeps the repository's own suite green.
# usage: tools/seedsuite.sh NAME...     (NAME = directory under /verif/seeded)
# For each change: fresh scratch worktree of /repo HEAD outside /repo and /verif, apply patch.diff, run the
# suite (xdist) and then the two pexpect files serially, write seeded/NAME/suite.log, remove the worktree.
# Expected: only the 15 test_socket_guard failures (+ the pexpect tests and test_p2tr_validation, which
# are order/timing dependent under xdist and are re-run serially).
for name in "$@"; do
  d=/verif/seeded/$name
  wt=/tmp/wt_seedsuite_$name
  git -C /repo worktree add -q --detach "$wt" HEAD || continue
  log=$d/suite.log
  {
    echo "repo HEAD: $(git -C /repo rev-parse --short HEAD)"
    git -C "$wt" apply --whitespace=nowarn "$d/patch.diff" && git -C "$wt" diff --stat | tail -1
    cd "$wt" || exit 2
    PYTHONPATH=$wt /venv/bin/python -c "import buidl; print('buidl from', buidl.__file__)"
    echo "--- demo.py against the patched worktree (expect exit 1)"
    /venv/bin/python "$d/demo.py" "$wt" > /dev/null 2>&1; echo "exit=$?"
    echo "--- suite under xdist (socket_guard failures filtered out)"
    PYTHONPATH=$wt env -u BUIDL_VERIF nice -n 5 /venv/bin/python -m pytest -q -p no:cacheprovider --timeout=900 -n 8 2>&1 \
      | grep -E "^(FAILED|ERROR)|passed|failed" | grep -v -E "socket_guard"
    echo "--- order/timing dependent tests re-run serially"
    PYTHONPATH=$wt env -u BUIDL_VERIF /venv/bin/python -m pytest -q -p no:cacheprovider -p no:rerunfailures --timeout=900 \
      test_multiwallet.py test_singlesweep.py buidl/test/test_psbt.py buidl/test/test_taproot.py 2>&1 \
      | grep -E "^(FAILED|ERROR)|passed|failed" | grep -v socket_guard
  } > "$log" 2>&1
  cd /verif
  git -C /repo worktree remove --force "$wt"
done
