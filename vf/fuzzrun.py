"""Coverage-guided fuzzing of one 'fuzz' sub-check with atheris (libFuzzer), thorough tier only.

The oracle lives inside the target: every input is handed to the sub-check's ``check`` through the
same Recorder as in the property-based runs, violations are COLLECTED (the target never crashes, so
the campaign continues past the first finding) and written to a JSON result file at exit.

usage: python -m vf.fuzzrun PID SUB OUT.json --runs N --seed S [--max-len L]
"""
import json
import os
import sys
import tempfile

HERE = os.path.dirname(os.path.dirname(os.path.abspath(__file__)))
REPO = os.environ.get("VF_REPO", "/repo")


def main():
    pid, sub_name, out = sys.argv[1:4]
    runs = int(sys.argv[sys.argv.index("--runs") + 1])
    seed = int(sys.argv[sys.argv.index("--seed") + 1])
    max_len = int(sys.argv[sys.argv.index("--max-len") + 1]) if "--max-len" in sys.argv else 4096
    tier = "thorough"
    for p in (os.path.join(HERE, ".deps"), HERE, REPO):
        if p in sys.path:
            sys.path.remove(p)
        sys.path.insert(0, p)
    import atheris

    with atheris.instrument_imports(include=["buidl"]):
        import buidl  # noqa
        import importlib

        mod = importlib.import_module(f"vf.props.{pid.lower()}")
    from vf import core

    sub = [s for s in mod.SUBS if s.name == sub_name][0]
    rec = core.Recorder(sub, tier)
    state = {"n": 0, "harness_error": None}

    def dump():
        r = rec.result()
        r["harness_error"] = state["harness_error"]
        tmp = out + ".tmp"
        with open(tmp, "w") as f:
            json.dump(r, f)
        os.replace(tmp, out)

    def one(data):
        state["n"] += 1
        nv = sum(len(v) for v in rec.violations.values())
        try:
            rec.run_case({"data": bytes(data)})
        except core.HarnessError as e:  # keep going, report at the end
            state["harness_error"] = str(e)
        # libFuzzer leaves through _exit (atexit handlers do not run): persist as we go
        if state["n"] % 500 == 0 or state["n"] >= runs - 1 or nv != sum(len(v) for v in rec.violations.values()):
            dump()

    corpus = os.path.join(os.path.dirname(os.path.abspath(out)), "corpus")  # the caller removes it
    os.makedirs(corpus, exist_ok=True)
    for i, s in enumerate(sub.seeds(tier) if sub.seeds else []):
        with open(os.path.join(corpus, f"seed{i}"), "wb") as f:
            f.write(s)

    def finish():
        dump()
        import shutil

        shutil.rmtree(corpus, ignore_errors=True)

    dump()
    argv = [sys.argv[0], corpus, f"-runs={runs}", f"-seed={seed or 1}", f"-max_len={max_len}",
            "-print_final_stats=0", "-verbosity=0"]
    atheris.Setup(argv, one)
    try:
        atheris.Fuzz()
    finally:
        finish()


if __name__ == "__main__":
    main()
