"""Core API of the verification framework.

A property is decided by several *sub-checks* (``Sub``).  Each sub-check has a
generator (a Hypothesis strategy, a finite enumeration, or a custom shard
runner) that produces *case records* -- plain JSON-serialisable values -- and an
oracle ``check(case, ctx)`` that raises ``Violation(bucket, detail)`` when the
property is broken for that case.  The separation makes replay independent of
Hypothesis: a replay file is ``{property, sub, case}`` and is re-checked by
calling ``check`` directly.
"""
import contextlib
import copy
import hashlib
import io
import json
import os
import sys
import time
import traceback


class Violation(Exception):
    """The property does not hold for this case."""

    def __init__(self, bucket, detail=""):
        super().__init__(f"{bucket}: {detail}")
        self.bucket = bucket
        self.detail = detail


class Discard(Exception):
    """The generated case is outside the property's stated domain (counted)."""

    def __init__(self, why="out_of_domain"):
        super().__init__(why)
        self.why = why


class HarnessError(Exception):
    """The harness itself is wrong (oracle self-test failed, etc.): exit 2."""


class StopRun(Exception):
    """Wall-clock budget of a shard is exhausted (inconclusive, not a violation)."""


# ---------------------------------------------------------------------------
# JSON encoding of case records (bytes <-> {"$b": hex})


def to_jsonable(x):
    if isinstance(x, (bytes, bytearray)):
        return {"$b": bytes(x).hex()}
    if isinstance(x, dict):
        return {str(k): to_jsonable(v) for k, v in x.items()}
    if isinstance(x, (list, tuple)):
        return [to_jsonable(v) for v in x]
    if isinstance(x, (set, frozenset)):
        return [to_jsonable(v) for v in sorted(x)]
    if isinstance(x, (int, str, bool, float)) or x is None:
        return x
    raise TypeError(f"case record contains non-serialisable {type(x)}")


def from_jsonable(x):
    if isinstance(x, dict):
        if set(x.keys()) == {"$b"}:
            return bytes.fromhex(x["$b"])
        return {k: from_jsonable(v) for k, v in x.items()}
    if isinstance(x, list):
        return [from_jsonable(v) for v in x]
    return x


def normalise(case):
    """What a replayed case looks like (tuples become lists, etc.)."""
    return from_jsonable(to_jsonable(case))


def case_digest(sub_name, case):
    blob = json.dumps([sub_name, to_jsonable(case)], sort_keys=True).encode()
    return int.from_bytes(hashlib.blake2b(blob, digest_size=8).digest(), "big")


def short(case, limit=1500):
    """A sample small enough for an evidence file."""
    j = to_jsonable(case)
    s = json.dumps(j, sort_keys=True)
    if len(s) <= limit:
        return j
    return {"$truncated_json": s[:limit], "$len": len(s)}


# ---------------------------------------------------------------------------


class Ctx:
    """Per-shard recorder handed to ``check``."""

    def __init__(self):
        self.classes = {}
        self._nontrivial = False
        self.tier = "quick"

    def label(self, name, n=1):
        self.classes[name] = self.classes.get(name, 0) + n

    def nontrivial(self, flag=True):
        if flag:
            self._nontrivial = True


@contextlib.contextmanager
def quiet():
    """The library prints diagnostics on stdout; keep stdout for the harness."""
    old = sys.stdout
    sys.stdout = io.StringIO()
    try:
        yield
    finally:
        sys.stdout = old


class CaseTimeout(Exception):
    pass


@contextlib.contextmanager
def time_limit(seconds):
    """Abort library code that loops forever (raises CaseTimeout in the main thread).
    A timeout is never a violation: callers turn it into a Discard."""
    import signal

    def handler(signum, frame):
        raise CaseTimeout()

    old = signal.signal(signal.SIGALRM, handler)
    signal.setitimer(signal.ITIMER_REAL, seconds)
    try:
        yield
    finally:
        signal.setitimer(signal.ITIMER_REAL, 0)
        signal.signal(signal.SIGALRM, old)


def attempt(fn, *a, **kw):
    """Call library code: ('ok', value) or ('exc', exception)."""
    try:
        with quiet():
            return "ok", fn(*a, **kw)
    except (Violation, Discard, StopRun, HarnessError, KeyboardInterrupt):
        raise
    except RecursionError as e:  # pragma: no cover
        return "exc", e
    except Exception as e:  # noqa: BLE001 - the contract is 'raises on invalid input'
        return "exc", e


def rejects(fn, *a, **kw):
    """True when the call returns a falsy value or raises ('reject')."""
    st, v = attempt(fn, *a, **kw)
    return st == "exc" or not v


def require(cond, bucket, detail=""):
    if not cond:
        raise Violation(bucket, detail() if callable(detail) else detail)


def must(fn, bucket, *a, **kw):
    """Call library code that the property says must succeed."""
    st, v = attempt(fn, *a, **kw)
    if st == "exc":
        raise Violation(
            bucket + ":raises_" + type(v).__name__, f"{type(v).__name__}: {v}"[:300]
        )
    return v


def innermost_repo_frame(exc):
    """(file:function) of the innermost traceback frame inside buidl, or None."""
    tb = traceback.extract_tb(exc.__traceback__)
    for fr in reversed(tb):
        fn = fr.filename.replace("\\", "/")
        if "/buidl/" in fn and "/vf/" not in fn:
            return f"{os.path.basename(fn)}:{fr.name}"
    return None


class Sub:
    """One clause of a property with its own generator and oracle.

    kind:
      'pbt'        -- ``strategy(tier)`` returns a Hypothesis strategy of cases
      'exhaustive' -- ``enumerate(tier)`` returns an iterable over a finite domain;
                      every element is evaluated (sharded by index)
      'custom'     -- ``run_shard(sub, tier, seed, shard, nshards, rec)`` does it all
    budget: {'quick': n, 'thorough': n}  total cases over all shards (pbt)
    """

    def __init__(
        self,
        name,
        check,
        kind="pbt",
        strategy=None,
        enumerate=None,
        run_shard=None,
        budget=None,
        required=(),
        nontrivial_rule="every case",
        doc="",
        max_shards=16,
        wall_cap=None,
        stateful=False,
        min_per_shard=None,
        seeds=None,
        max_len=4096,
    ):
        # kind == 'fuzz': check receives {"data": bytes}; seeds(tier) -> list of valid inputs.  Quick
        # tier: Hypothesis mutations of the seeds; thorough tier: coverage-guided atheris campaign
        self.seeds = seeds
        self.max_len = max_len
        # expensive sub-checks (>= 0.1 s per case) should set min_per_shard low (e.g. 4) so that a
        # small budget still spreads over all 16 worker processes
        self.min_per_shard = min_per_shard
        self.name = name
        self.check = check
        self.kind = kind
        self.strategy = strategy
        self.enumerate = enumerate
        self.run_shard = run_shard
        self.budget = budget or {"quick": 1000, "thorough": 20000}
        self.required = tuple(required)
        self.nontrivial_rule = nontrivial_rule
        self.doc = doc
        self.max_shards = max_shards
        self.wall_cap = wall_cap or {"quick": 150, "thorough": 3000}
        self.stateful = stateful


CASE_CPU_LIMIT = int(os.environ.get("VF_CASE_CPU_LIMIT", "900"))  # seconds of CPU one case may burn before the run is declared broken (exit 2)


@contextlib.contextmanager
def _cpu_watchdog(sub_name):
    """A case that spins forever (a bug in the harness or an endless loop in the library that the check
    does not guard with time_limit) must not hang the check: after CASE_CPU_LIMIT CPU-seconds the run
    ends as a harness error.  Uses ITIMER_VIRTUAL so that it does not interfere with time_limit."""
    import signal

    def handler(signum, frame):
        raise HarnessError(f"{sub_name}: one case used more than {CASE_CPU_LIMIT} s of CPU")

    try:
        old = signal.signal(signal.SIGVTALRM, handler)
        signal.setitimer(signal.ITIMER_VIRTUAL, CASE_CPU_LIMIT)
    except (ValueError, AttributeError):  # not in the main thread
        yield
        return
    try:
        yield
    finally:
        signal.setitimer(signal.ITIMER_VIRTUAL, 0)
        signal.signal(signal.SIGVTALRM, old)


class Recorder:
    """Accumulates what one shard did."""

    MAX_PER_BUCKET = 2

    def __init__(self, sub, tier):
        self.sub = sub
        self.tier = tier
        self.evaluations = 0
        self.discarded = {}
        self.digests = set()
        self.classes = {}
        self.samples = []
        self.violations = {}  # bucket -> list of (case, detail)
        self.t0 = time.time()
        self.stopped = False
        self.stop_on = None

    def run_case(self, case, raise_bucket=None):
        """Evaluate one case.  In collect mode violations are recorded and the
        search continues; with raise_bucket the matching violation propagates
        (used while shrinking)."""
        ctx = Ctx()
        ctx.tier = self.tier
        # the oracle works on a private copy: a check that edits its case (many do, to apply an edit to the
        # model) must neither change what is recorded for replay nor what Hypothesis re-runs
        original = case
        case = copy.deepcopy(case)
        try:
            try:
                with quiet(), _cpu_watchdog(self.sub.name):
                    self.sub.check(case, ctx)
            except (Violation, Discard, StopRun, HarnessError, KeyboardInterrupt):
                raise
            except CaseTimeout:
                raise Discard("time limit of a library call hit (inconclusive, never a violation)")
            except Exception as e:  # noqa: BLE001
                where = innermost_repo_frame(e)
                if where is None:
                    raise HarnessError(
                        f"{self.sub.name}: harness exception "
                        + "".join(traceback.format_exception(e))[-3000:]
                    )
                raise Violation(
                    f"crash:{type(e).__name__}@{where}", f"{type(e).__name__}: {e}"[:300]
                )
        except Discard as d:
            self.discarded[d.why] = self.discarded.get(d.why, 0) + 1
            return
        except Violation as v:
            self.evaluations += 1
            for k, n in ctx.classes.items():
                self.classes[k] = self.classes.get(k, 0) + n
            if raise_bucket is not None:
                if v.bucket == raise_bucket:
                    raise
                return
            lst = self.violations.setdefault(v.bucket, [])
            if len(lst) < self.MAX_PER_BUCKET:
                lst.append((normalise(original), v.detail))
            # development only (mutation runs, VF_FIRST=1): the shard ends at its first unlisted violation
            if self.stop_on is not None and self.stop_on(v.bucket, original):
                self.stopped = True
                raise StopRun()
            return
        self.evaluations += 1
        for k, n in ctx.classes.items():
            self.classes[k] = self.classes.get(k, 0) + n
        if ctx._nontrivial:
            self.digests.add(case_digest(self.sub.name, original))
        if self.evaluations in (4, 23, 97) or (self.evaluations == 1 and not self.samples):
            if len(self.samples) >= 3:
                self.samples.pop(0)
            self.samples.append(short(original))

    def result(self):
        return {
            "sub": self.sub.name,
            "evaluations": self.evaluations,
            "discarded": self.discarded,
            "digests": sorted(self.digests),
            "classes": self.classes,
            "samples": self.samples,
            "violations": {
                b: [(to_jsonable(c), d) for c, d in lst]
                for b, lst in self.violations.items()
            },
            "stopped": self.stopped,
            "wall": time.time() - self.t0,
        }
