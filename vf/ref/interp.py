"""Reference script interpreter for the opcode subset buidl implements, written from Bitcoin
Core's EvalScript / CScriptNum / CheckLockTime / CheckSequence under CONSENSUS flags
(P2SH, CLTV, CSV; no policy flags such as MINIMALDATA, MINIMALIF, CLEANSTACK).

A program is a list of tokens: int = opcode, bytes = data push (any length <= 520)."""
import hashlib


class NumOverflow(Exception):
    """a numeric operand longer than the allowed size (script fails; outside C07's stated domain)"""


class ScriptFail(Exception):
    pass


def num_decode(b, max_len=4):
    if len(b) > max_len:
        raise NumOverflow()
    if not b:
        return 0
    v = int.from_bytes(b, "little")
    if b[-1] & 0x80:
        return -(v & ~(0x80 << (8 * (len(b) - 1))))
    return v


def num_encode(n):
    if n == 0:
        return b""
    neg = n < 0
    a = abs(n)
    out = bytearray()
    while a:
        out.append(a & 0xFF)
        a >>= 8
    if out[-1] & 0x80:
        out.append(0x80 if neg else 0)
    elif neg:
        out[-1] |= 0x80
    return bytes(out)


def cast_to_bool(b):
    for i, c in enumerate(b):
        if c != 0:
            if i == len(b) - 1 and c == 0x80:
                return False
            return True
    return False


LOCKTIME_THRESHOLD = 500000000
SEQ_DISABLE = 1 << 31
SEQ_TYPE = 1 << 22
SEQ_MASK = 0xFFFF


def check_locktime(n, tx_locktime, tx_sequence):
    if not ((tx_locktime < LOCKTIME_THRESHOLD and n < LOCKTIME_THRESHOLD)
            or (tx_locktime >= LOCKTIME_THRESHOLD and n >= LOCKTIME_THRESHOLD)):
        return False
    if n > tx_locktime:
        return False
    if tx_sequence == 0xFFFFFFFF:
        return False
    return True


def check_sequence(n, tx_version, tx_sequence):
    if tx_version < 2:  # compared as unsigned
        return False
    if tx_sequence & SEQ_DISABLE:
        return False
    mask = SEQ_TYPE | SEQ_MASK
    a, b = tx_sequence & mask, n & mask
    if not ((a < SEQ_TYPE and b < SEQ_TYPE) or (a >= SEQ_TYPE and b >= SEQ_TYPE)):
        return False
    if b > a:
        return False
    return True


OP_IF, OP_NOTIF, OP_ELSE, OP_ENDIF = 99, 100, 103, 104
NOPS = {97, 176, 179, 180, 181, 182, 183, 184, 185}
UNARY_NUM = {139, 140, 143, 144, 145, 146}
BINARY_NUM = {147, 148, 154, 155, 156, 157, 158, 159, 160, 161, 162, 163, 164}
HASHES = {
    166: lambda b: hashlib.new("ripemd160", b).digest(),
    167: lambda b: hashlib.sha1(b).digest(),
    168: lambda b: hashlib.sha256(b).digest(),
    169: lambda b: hashlib.new("ripemd160", hashlib.sha256(b).digest()).digest(),
    170: lambda b: hashlib.sha256(hashlib.sha256(b).digest()).digest(),
}
SUPPORTED = (
    {0, 79} | set(range(81, 97)) | NOPS | {99, 100, 103, 104, 105, 106, 107, 108, 109, 110, 111, 112,
                                             113, 114, 115, 116, 117, 118, 119, 120, 121, 122, 123, 124,
                                             125, 130, 135, 136}
    | UNARY_NUM | BINARY_NUM | {165} | set(HASHES) | {177, 178}
)


def exec_op(op, stack, alt, ctx):
    """executes one non-flow-control opcode; raises ScriptFail / NumOverflow"""

    def need(n):
        if len(stack) < n:
            raise ScriptFail("stack")

    if op == 0:
        stack.append(b"")
    elif op == 79:
        stack.append(b"\x81")
    elif 81 <= op <= 96:
        stack.append(bytes([op - 80]))
    elif op in NOPS:
        pass
    elif op == 105:  # VERIFY
        need(1)
        if not cast_to_bool(stack.pop()):
            raise ScriptFail("verify")
    elif op == 106:
        raise ScriptFail("return")
    elif op == 107:
        need(1)
        alt.append(stack.pop())
    elif op == 108:
        if not alt:
            raise ScriptFail("alt")
        stack.append(alt.pop())
    elif op == 109:
        need(2)
        del stack[-2:]
    elif op == 110:
        need(2)
        stack.extend(stack[-2:])
    elif op == 111:
        need(3)
        stack.extend(stack[-3:])
    elif op == 112:  # 2OVER
        need(4)
        stack.extend(stack[-4:-2])
    elif op == 113:  # 2ROT (x1 x2 x3 x4 x5 x6 -- x3 x4 x5 x6 x1 x2)
        need(6)
        a = stack[-6:-4]
        del stack[-6:-4]
        stack.extend(a)
    elif op == 114:  # 2SWAP
        need(4)
        stack[-4:] = stack[-2:] + stack[-4:-2]
    elif op == 115:  # IFDUP
        need(1)
        if cast_to_bool(stack[-1]):
            stack.append(stack[-1])
    elif op == 116:
        stack.append(num_encode(len(stack)))
    elif op == 117:
        need(1)
        stack.pop()
    elif op == 118:
        need(1)
        stack.append(stack[-1])
    elif op == 119:  # NIP
        need(2)
        del stack[-2]
    elif op == 120:  # OVER
        need(2)
        stack.append(stack[-2])
    elif op in (121, 122):  # PICK, ROLL
        need(2)
        n = num_decode(stack[-1])
        stack.pop()
        if n < 0 or n >= len(stack):
            raise ScriptFail("pick/roll range")
        v = stack[-n - 1]
        if op == 122:
            del stack[-n - 1]
        stack.append(v)
    elif op == 123:  # ROT
        need(3)
        stack.append(stack.pop(-3))
    elif op == 124:
        need(2)
        stack.append(stack.pop(-2))
    elif op == 125:  # TUCK (x1 x2 -- x2 x1 x2)
        need(2)
        stack.insert(-2, stack[-1])
    elif op == 130:  # SIZE
        need(1)
        stack.append(num_encode(len(stack[-1])))
    elif op in (135, 136):
        need(2)
        b = stack.pop()
        a = stack.pop()
        eq = a == b
        stack.append(b"\x01" if eq else b"")
        if op == 136:
            if eq:
                stack.pop()
            else:
                raise ScriptFail("equalverify")
    elif op in UNARY_NUM:
        need(1)
        n = num_decode(stack[-1])
        stack.pop()
        if op == 139:
            n += 1
        elif op == 140:
            n -= 1
        elif op == 143:
            n = -n
        elif op == 144:
            n = abs(n)
        elif op == 145:
            n = 1 if n == 0 else 0
        elif op == 146:
            n = 1 if n != 0 else 0
        stack.append(num_encode(n))
    elif op in BINARY_NUM:
        need(2)
        a = num_decode(stack[-2])
        b = num_decode(stack[-1])
        del stack[-2:]
        r = {
            147: lambda: a + b, 148: lambda: a - b,
            154: lambda: int(a != 0 and b != 0), 155: lambda: int(a != 0 or b != 0),
            156: lambda: int(a == b), 157: lambda: int(a == b), 158: lambda: int(a != b),
            159: lambda: int(a < b), 160: lambda: int(a > b), 161: lambda: int(a <= b),
            162: lambda: int(a >= b), 163: lambda: min(a, b), 164: lambda: max(a, b),
        }[op]()
        stack.append(num_encode(r))
        if op == 157:
            if cast_to_bool(stack[-1]):
                stack.pop()
            else:
                raise ScriptFail("numequalverify")
    elif op == 165:  # WITHIN
        need(3)
        x = num_decode(stack[-3])
        lo = num_decode(stack[-2])
        hi = num_decode(stack[-1])
        del stack[-3:]
        stack.append(b"\x01" if lo <= x < hi else b"")
    elif op in HASHES:
        need(1)
        stack.append(HASHES[op](stack.pop()))
    elif op == 177:  # CLTV
        need(1)
        n = num_decode(stack[-1], 5)
        if n < 0:
            raise ScriptFail("negative locktime")
        if not check_locktime(n, ctx["locktime"], ctx["sequence"]):
            raise ScriptFail("cltv")
    elif op == 178:  # CSV
        need(1)
        n = num_decode(stack[-1], 5)
        if n < 0:
            raise ScriptFail("negative sequence")
        if not (n & SEQ_DISABLE):
            if not check_sequence(n, ctx["version"], ctx["sequence"]):
                raise ScriptFail("csv")
    else:
        raise ScriptFail(f"unsupported opcode {op}")


def run(program, ctx, stack=None, alt=None, observer=None, trace=None):
    """returns (ok, stack, altstack); ok is False when the script fails.
    observer(stack, remaining_tokens) is called after every executed data push."""
    stack = [] if stack is None else list(stack)
    alt = [] if alt is None else list(alt)
    vf_exec = []
    try:
        for pos, t in enumerate(program):
            executing = all(vf_exec)
            if isinstance(t, (bytes, bytearray)):
                if executing:
                    stack.append(bytes(t))
                    if observer:
                        observer(stack, program[pos + 1:])
                continue
            if t in (OP_IF, OP_NOTIF):
                val = False
                if executing:
                    if not stack:
                        raise ScriptFail("if without value")
                    val = cast_to_bool(stack.pop())
                    if t == OP_NOTIF:
                        val = not val
                vf_exec.append(val)
            elif t == OP_ELSE:
                if not vf_exec:
                    raise ScriptFail("else without if")
                vf_exec[-1] = not vf_exec[-1]
            elif t == OP_ENDIF:
                if not vf_exec:
                    raise ScriptFail("endif without if")
                vf_exec.pop()
            elif executing:
                if trace is not None:
                    trace.append(t)
                exec_op(t, stack, alt, ctx)
        if vf_exec:
            raise ScriptFail("unbalanced conditional")
    except ScriptFail:
        return False, stack, alt
    return True, stack, alt


def evaluate(program, ctx, observer=None, trace=None):
    ok, stack, _ = run(program, ctx, observer=observer, trace=trace)
    return bool(ok and stack and cast_to_bool(stack[-1]))


def selftest():
    assert num_encode(0) == b"" and num_encode(1) == b"\x01" and num_encode(-1) == b"\x81"
    assert num_encode(127) == b"\x7f" and num_encode(128) == b"\x80\x00" and num_encode(-128) == b"\x80\x80"
    assert num_encode(255) == b"\xff\x00" and num_encode(-255) == b"\xff\x80" and num_encode(256) == b"\x00\x01"
    assert num_encode(2147483647) == b"\xff\xff\xff\x7f" and num_encode(-2147483647) == b"\xff\xff\xff\xff"
    for v in (0, 1, -1, 127, 128, -128, 255, 256, 32767, 32768, -32768, 2**31 - 1, -(2**31) + 1):
        assert num_decode(num_encode(v)) == v
    assert num_decode(b"\x00") == 0 and num_decode(b"\x80") == 0 and num_decode(b"\x01\x00") == 1
    assert not cast_to_bool(b"") and not cast_to_bool(b"\x00\x00") and not cast_to_bool(b"\x00\x80")
    assert cast_to_bool(b"\x80\x00") and cast_to_bool(b"\x01")
    ctx = {"locktime": 0, "sequence": 0xFFFFFFFF, "version": 1}
    # script_tests.json style cases (Bitcoin Core)
    T = lambda p: evaluate(p, ctx)  # noqa
    assert T([81, 82, 147, 83, 135])  # 1 2 ADD 3 EQUAL
    assert T([81, 99, 82, 103, 83, 104, 82, 135])  # 1 IF 2 ELSE 3 ENDIF 2 EQUAL
    assert T([0, 99, 82, 103, 83, 104, 83, 135])
    assert T([0, 99, 0, 99, 81, 103, 0, 104, 103, 81, 99, 82, 103, 83, 104, 104, 82, 135])
    assert not T([81, 99, 81])  # unbalanced
    assert not T([81, 104])
    assert T([b"\x01", b"\x02", b"\x03", b"\x04", b"\x05", b"\x06", 113, 117, 117, 117, 117, 117, 0x53, 135])
    assert T([81, 82, 83, 123, 81, 135])  # ROT -> 2 3 1
    assert T([81, 82, 125, 116, 83, 135])  # TUCK DEPTH 3 EQUAL
    assert T([b"\x16", b"\x15", b"\x14", 82, 121, b"\x16", 135])  # PICK
    assert T([b"\x16", b"\x15", b"\x14", 82, 122, b"\x16", 136, 116, 82, 135])  # ROLL
    assert not T([81, 79, 121])  # negative pick
    assert T([0, 145]) and not T([81, 145]) and T([b"\x0b", 145, 0, 135])
    assert T([81, 0, 82, 165]) and not T([82, 0, 82, 165]) and T([0, 0, 81, 165])
    assert not T([b"\x00"]) and not T([b"\x80"]) and not T([b"\x00\x00"]) and T([b"\x00\x01"])
    assert T([b"\xff\xff\xff\x7f", 139, b"\x00\x00\x00\x80\x00", 135])  # 2^31-1 1ADD -> 5 bytes ok
    try:  # 5-byte operand: consensus failure, reported as NumOverflow (outside C07's domain)
        T([b"\x00\x00\x00\x80\x00", 139])
        raise AssertionError("expected NumOverflow")
    except NumOverflow:
        pass
    assert T([81, 107, 0, 108])
    assert T([b"", 168, bytes.fromhex("e3b0c44298fc1c149afbf4c8996fb92427ae41e4649b934ca495991b7852b855"), 135])
    # BIP65 / BIP112
    c2 = {"locktime": 500, "sequence": 0, "version": 2}
    assert evaluate([b"\xf4\x01", 177], c2) and not evaluate([b"\xf5\x01", 177], c2)
    assert not evaluate([b"\xf4\x01", 177], dict(c2, sequence=0xFFFFFFFF))
    assert not evaluate([num_encode(500000000), 177], c2)
    assert not evaluate([79, 177], c2) and not evaluate([177], c2)
    c3 = {"locktime": 0, "sequence": 10, "version": 2}
    assert evaluate([b"\x0a", 178], c3) and not evaluate([b"\x0b", 178], c3)
    assert not evaluate([b"\x0a", 178], dict(c3, version=1))
    assert evaluate([num_encode(1 << 31), 178], dict(c3, version=1, sequence=0xFFFFFFFF))  # disabled -> NOP
    assert not evaluate([num_encode(SEQ_TYPE | 5), 178], c3)  # type mismatch
    assert not evaluate([b"\x0a", 178], dict(c3, sequence=SEQ_DISABLE | 20))
