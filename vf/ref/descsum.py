"""Independent output-descriptor reference: checksum (Bitcoin Core, script/descriptor.cpp), the
wsh(sortedmulti(...)) text and its P2WSH addresses.

The checksum is implemented as what descriptor.cpp's comment *defines* it to be: a BCH code over
GF(32) = GF(2)[a]/(a^5 + a^3 + 1) with generator
    G(x) = x^8 + {30}x^7 + {23}x^6 + {15}x^5 + {14}x^4 + {10}x^3 + {6}x^2 + {12}x + {9},
evaluated by polynomial long division; each input character contributes the symbol (pos & 31) and
every three characters contribute one extra symbol made of their group numbers (pos >> 5) in base
3; eight zero symbols are appended and the final residue is xored with 1.  The five 40-bit
constants of PolyMod() are only used by the self-test (they must equal {2^i} * (G(x) - x^8)).
"""
import hashlib

from vf.ref import bech32, bip32

INPUT_CHARSET = (
    "0123456789()[],'/*abcdefgh@:$%{}"
    "IJKLMNOPQRSTUVWXYZ&+-.;<=>?!^_|~"
    "ijklmnopqrstuvwxyzABCDEFGH`#\"\\ "
)
CHECKSUM_CHARSET = "qpzry9x8gf2tvdw0s3jn54khce6mua7l"
_G = [30, 23, 15, 14, 10, 6, 12, 9]  # coefficients of x^7 .. x^0


def _gf32_mul(a, b):
    r = 0
    for i in range(5):
        if (b >> i) & 1:
            r ^= a << i
    for i in range(8, 4, -1):
        if (r >> i) & 1:
            r ^= 0b101001 << (i - 5)
    return r


_TOP = [[_gf32_mul(t, g) for g in _G] for t in range(32)]


def _residue(symbols):
    """residue modulo G of x^len + sum symbols[i] x^(len-1-i) (the state starts at 1)"""
    r = [0, 0, 0, 0, 0, 0, 0, 1]
    for v in symbols:
        t = _TOP[r[0]]
        r = [r[i + 1] ^ t[i] for i in range(7)] + [v ^ t[7]]
    return r


def symbols(text):
    """None if a character is outside the input charset"""
    out = []
    cls, count = 0, 0
    for ch in text:
        pos = INPUT_CHARSET.find(ch)
        if pos < 0 or len(ch) != 1:
            return None
        out.append(pos & 31)
        cls = cls * 3 + (pos >> 5)
        count += 1
        if count == 3:
            out.append(cls)
            cls, count = 0, 0
    if count:
        out.append(cls)
    return out


def descsum(text):
    """the 8-character checksum of a descriptor body (without '#'), or None"""
    sym = symbols(text)
    if sym is None:
        return None
    r = _residue(sym + [0] * 8)
    r[7] ^= 1
    return "".join(CHECKSUM_CHARSET[v] for v in r)


def descsum_check(full):
    """True iff ``full`` is BODY#CHECKSUM with a valid checksum (Core's CheckChecksum with
    require_checksum=true)"""
    if full.count("#") != 1:
        return False
    body, chk = full.split("#")
    if len(chk) != 8:
        return False
    return descsum(body) == chk


# ------------------------------------------------------------------ wsh(sortedmulti)

XPUB_VERSION = {"mainnet": bytes.fromhex("0488b21e"), "testnet": bytes.fromhex("043587cf")}
# SLIP-0132 public versions: name -> (network, bytes)
SLIP132 = {
    "xpub": ("mainnet", "0488b21e"), "ypub": ("mainnet", "049d7cb2"), "zpub": ("mainnet", "04b24746"),
    "Ypub": ("mainnet", "0295b43f"), "Zpub": ("mainnet", "02aa7ed3"),
    "tpub": ("testnet", "043587cf"), "upub": ("testnet", "044a5262"), "vpub": ("testnet", "045f1cf6"),
    "Upub": ("testnet", "024289ef"), "Vpub": ("testnet", "02575483"),
}


def sortedmulti_text(m, records):
    """records: list of (xfp_hex, path_without_m e.g. '/48h/0h', standard xpub string, index), in
    the order in which they are to appear"""
    body = f"wsh(sortedmulti({m}"
    for xfp, path, xpub, index in records:
        body += f",[{xfp}{path}]{xpub}/{index}/*"
    return body + "))"


def op_n(n):
    assert 1 <= n <= 16
    return bytes([0x50 + n])


def multisig_script(m, pubkeys):
    """BIP67 / sortedmulti: keys in lexicographic order of their compressed encodings"""
    keys = sorted(pubkeys)
    assert all(len(k) == 33 for k in keys)
    return op_n(m) + b"".join(b"\x21" + k for k in keys) + op_n(len(keys)) + b"\xae"


def p2wsh_address(script, network):
    return bech32.segwit_encode(bech32.HRP[network], 0, hashlib.sha256(script).digest())


def sortedmulti_address(m, nodes, branch_indexes, offset, network):
    """nodes: bip32.Node (public) per cosigner; branch_indexes: the child index of each cosigner's
    branch (account index, +1 for change)"""
    keys = []
    for node, b in zip(nodes, branch_indexes):
        leaf = node.ckd_pub(b).ckd_pub(offset)
        keys.append(bip32.ec.sec(leaf.K))
    return p2wsh_address(multisig_script(m, keys), network), keys


# ------------------------------------------------------------------ self-test

_POLYMOD_CONSTANTS = [0xF5DEE51989, 0xA9FDCA3312, 0x1BAB10E32D, 0x3706B1677A, 0x644D626FFD]

_VECTORS = [
    # BIP-380
    ("raw(deadbeef)", "89f8spxm"),
    # specter-desktop vectors reproduced in the repository's test-suite
    ("sh(multi(2,[00000000/111'/222]xpub6ERApfZwUNrhLCkDtcHTcxd75RbzS1ed54G1LkBUHQVHQKqhMkhgbmJbZRkr"
     "gZw4koxb5JaHWkY4ALHY2grBGRjaDMzQLcgJvLJuZZvRcEL,xpub68NZiKmJWnxxS6aaHmn81bvJeTESw724CRDs6HbuccF"
     "QN9Ku14VQrADWgqbhhTHBaohPX4CjNLf9fq9MYo6oDaPPLPxSb7gwQN3ih19Zm4Y/0))", "tjg09x5t"),
    ("sh(wsh(sortedmulti(2,029dfee2aaa23e2220476c34eda9a76591c1257f8dfce54e42ff014f922ede0838,03151d5"
     "b21c6491915e7a103bff913b4d85246c8209a342bb7104850e4cb394686,03646d8e624fedb63739e7963d0c7ad368a"
     "7f7935557b2b28c4c954882b19fe6e1)))", "rzmdthwy"),
]
# wallet vector of the repository's test-suite (checksum and first receive address)
_W_RECORDS = [
    ("c7d0648a", "/48h/1h/0h/2h", "tpubDEpefcgzY6ZyEV2uF4xcW2z8bZ3DNeWx9h2BcwcX973BHrmkQxJhpAXoSWZeHkm"
     "kiTtnUjfERsTDTVCcifW6po3PFR1JRjUUTJHvPpDqJhr", 0),
    ("12980eed", "/48h/1h/0h/2h", "tpubDEkXGoQhYLFnYyzUGadtceUKbzVfXVorJEdo7c6VKJLHrULhpSVLC7fo89DDhjH"
     "mPvvNyrun2LTWH6FYmHh5VaQYPLEqLviVQKh45ufz8Ae", 0),
    ("f7d04090", "/48h/1h/0h/2h", "tpubDF7FTuPECTePubPXNK73TYCzV3nRWaJnRwTXD28kh6Fz4LcaRzWwNtX153J7WeJ"
     "FcQB2T6k9THd424Kmjs8Ps1FC1Xb81TXTxxbGZrLqQNp", 0),
]


def node_from_xpub(xpub):
    raw = bip32.b58check_decode(xpub)
    assert raw is not None and len(raw) == 78
    K = bip32.ec.parse_sec(raw[45:])
    assert K is not None
    return bip32.Node(None, K, raw[13:45], raw[4], raw[5:9], int.from_bytes(raw[9:13], "big"))


_done = False


def selftest():
    global _done
    if _done:
        return
    bech32.ensure_selftest()
    bip32.ensure_selftest() if hasattr(bip32, "ensure_selftest") else bip32.selftest()
    assert len(INPUT_CHARSET) == 95 and len(set(INPUT_CHARSET)) == 95
    assert set(INPUT_CHARSET) == {chr(c) for c in range(32, 127)}
    # PolyMod's constants are {1,2,4,8,16} * (G - x^8), packed 5 bits per coefficient
    for i, const in enumerate(_POLYMOD_CONSTANTS):
        packed = 0
        for g in _TOP[1 << i]:
            packed = (packed << 5) | g
        assert packed == const, (i, hex(packed))
    for body, chk in _VECTORS:
        assert descsum(body) == chk, (body[:20], descsum(body))
        assert descsum_check(body + "#" + chk)
        assert not descsum_check(body + "#" + chk[:-1] + ("q" if chk[-1] != "q" else "p"))
    assert not descsum_check("raw(deedbeef)#89f8spxm")
    assert not descsum_check("raw(deadbeef)#89f8spxmx") and not descsum_check("raw(deadbeef)#89f8spx")
    assert not descsum_check("raw(deadbeef)##9f8spxm") and not descsum_check("raw(deadbeef)")
    assert descsum("raw(ü)") is None
    text = sortedmulti_text(2, _W_RECORDS)
    assert descsum(text) == "0stzl64e", descsum(text)
    nodes = [node_from_xpub(r[2]) for r in _W_RECORDS]
    addr, _ = sortedmulti_address(2, nodes, [0, 0, 0], 0, "testnet")
    assert addr == "tb1q0cy5x39ezyvc4pfydrqedng0h9arh2hcw8lpfa6e9ama7ky7cffsmzmgx8", addr
    _done = True
