"""Reference Merkle / SPV / proof-of-work model.

Written from Bitcoin Core (consensus/merkle.cpp ComputeMerkleRoot, merkleblock.cpp
CPartialMerkleTree, arith_uint256.cpp SetCompact/GetCompact, pow.cpp CheckProofOfWork /
CalculateNextWorkRequired) and BIP37.  All hashes are in internal (wire) byte order.
"""
import hashlib
import struct


def sha256d(b):
    return hashlib.sha256(hashlib.sha256(b).digest()).digest()


# ----------------------------------------------------------------- merkle root


def merkle_levels(leaves):
    """levels[0] = leaves ... levels[-1] = [root]; an odd level pairs its last element with itself"""
    if not leaves:
        raise ValueError("empty")
    levels = [list(leaves)]
    while len(levels[-1]) > 1:
        cur = levels[-1]
        nxt = []
        for i in range(0, len(cur), 2):
            left = cur[i]
            right = cur[i + 1] if i + 1 < len(cur) else cur[i]
            nxt.append(sha256d(left + right))
        levels.append(nxt)
    return levels


def merkle_root(leaves):
    return merkle_levels(leaves)[-1][0]


# ------------------------------------------------- CPartialMerkleTree (BIP37)

MAX_TXS = 4000000 // 240  # MAX_BLOCK_WEIGHT / MIN_TRANSACTION_WEIGHT


def tree_width(n, height):
    return (n + (1 << height) - 1) >> height


def tree_height(n):
    h = 0
    while tree_width(n, h) > 1:
        h += 1
    return h


def build_partial(txids, matches):
    """TraverseAndBuild: returns (bits list, hashes list).  matches: list of bool per txid."""
    n = len(txids)
    assert n >= 1 and len(matches) == n
    levels = merkle_levels(txids)  # levels[h][pos] == CalcHash(h, pos)
    # prefix sums for 'is any leaf of the subtree matched'
    pre = [0]
    for m in matches:
        pre.append(pre[-1] + (1 if m else 0))
    bits, hashes = [], []

    def rec(height, pos):
        lo = pos << height
        hi = min((pos + 1) << height, n)
        parent_of_match = pre[hi] - pre[lo] > 0
        bits.append(1 if parent_of_match else 0)
        if height == 0 or not parent_of_match:
            hashes.append(levels[height][pos])
        else:
            rec(height - 1, pos * 2)
            if pos * 2 + 1 < tree_width(n, height - 1):
                rec(height - 1, pos * 2 + 1)

    rec(tree_height(n), 0)
    return bits, hashes


def bits_to_bytes(bits):
    out = bytearray((len(bits) + 7) // 8)
    for p, b in enumerate(bits):
        out[p // 8] |= b << (p % 8)
    return bytes(out)


def bytes_to_bits(b):
    return [(b[p // 8] >> (p % 8)) & 1 for p in range(len(b) * 8)]


def extract_matches(n, bits, hashes):
    """ExtractMatches: (root, [matched txid], [index]) or None when the proof is bad."""
    if n == 0 or n > MAX_TXS:
        return None
    if len(hashes) > n:
        return None
    if len(bits) < len(hashes):
        return None
    state = {"bits": 0, "hashes": 0, "bad": False}
    matched, index = [], []

    def rec(height, pos):
        if state["bits"] >= len(bits):
            state["bad"] = True
            return bytes(32)
        parent_of_match = bits[state["bits"]]
        state["bits"] += 1
        if height == 0 or not parent_of_match:
            if state["hashes"] >= len(hashes):
                state["bad"] = True
                return bytes(32)
            h = hashes[state["hashes"]]
            state["hashes"] += 1
            if height == 0 and parent_of_match:
                matched.append(h)
                index.append(pos)
            return h
        left = rec(height - 1, pos * 2)
        if pos * 2 + 1 < tree_width(n, height - 1):
            right = rec(height - 1, pos * 2 + 1)
            if right == left:
                state["bad"] = True  # CVE-2012-2459
        else:
            right = left
        return sha256d(left + right)

    root = rec(tree_height(n), 0)
    if state["bad"]:
        return None
    if (state["bits"] + 7) // 8 != (len(bits) + 7) // 8:
        return None
    if state["hashes"] != len(hashes):
        return None
    return root, matched, index


def merkleblock_msg(header80, n, hashes, flag_bytes):
    from vf.ref.p2p import compact_size
    assert len(header80) == 80
    return (header80 + struct.pack("<I", n) + compact_size(len(hashes)) + b"".join(hashes)
            + compact_size(len(flag_bytes)) + flag_bytes)


# -------------------------------------------------------------------- compact


def set_compact(compact):
    """arith_uint256::SetCompact: (value, negative, overflow)"""
    size = compact >> 24
    word = compact & 0x007FFFFF
    if size <= 3:
        word >>= 8 * (3 - size)
        value = word
    else:
        value = word << (8 * (size - 3))
    negative = word != 0 and (compact & 0x00800000) != 0
    overflow = word != 0 and (size > 34 or (word > 0xFF and size > 33) or (word > 0xFFFF and size > 32))
    return value, negative, overflow


def get_compact(value, negative=False):
    """arith_uint256::GetCompact"""
    assert 0 <= value < 2**256
    size = (value.bit_length() + 7) // 8
    if size <= 3:
        compact = (value & 0xFFFFFFFFFFFFFFFF) << (8 * (3 - size))
    else:
        compact = (value >> (8 * (size - 3))) & 0xFFFFFFFFFFFFFFFF
    if compact & 0x00800000:
        compact >>= 8
        size += 1
    assert compact & ~0x007FFFFF == 0 and size < 256
    compact |= size << 24
    if negative and (compact & 0x007FFFFF):
        compact |= 0x00800000
    return compact


POW_LIMIT_MAINNET = 0x00000000FFFFFFFFFFFFFFFFFFFFFFFFFFFFFFFFFFFFFFFFFFFFFFFFFFFFFFFF
POW_LIMIT_REGTEST = 0x7FFFFFFFFFFFFFFFFFFFFFFFFFFFFFFFFFFFFFFFFFFFFFFFFFFFFFFFFFFFFFFF
TARGET_TIMESPAN = 14 * 24 * 60 * 60


def check_pow(header80, pow_limit=POW_LIMIT_REGTEST):
    """CheckProofOfWork on the header's own nBits"""
    (bits,) = struct.unpack_from("<I", header80, 72)
    target, negative, overflow = set_compact(bits)
    if negative or target == 0 or overflow or target > pow_limit:
        return False
    return int.from_bytes(sha256d(header80), "little") <= target


def next_work(prev_bits, actual_timespan, pow_limit=POW_LIMIT_MAINNET):
    """CalculateNextWorkRequired (without the BIP94 rule); returns compact bits"""
    if actual_timespan < TARGET_TIMESPAN // 4:
        actual_timespan = TARGET_TIMESPAN // 4
    if actual_timespan > TARGET_TIMESPAN * 4:
        actual_timespan = TARGET_TIMESPAN * 4
    target, negative, overflow = set_compact(prev_bits)
    assert not negative and not overflow
    new = target * actual_timespan
    assert new < 2**256, "arith_uint256 would overflow: outside the modelled domain"
    new //= TARGET_TIMESPAN
    if new > pow_limit:
        new = pow_limit
    return get_compact(new)


def chain_valid(headers, pow_limit=POW_LIMIT_REGTEST):
    """every header satisfies its proof of work and commits to the hash of its predecessor"""
    prev = None
    for h in headers:
        if not check_pow(h, pow_limit):
            return False
        if prev is not None and h[4:36] != prev:
            return False
        prev = sha256d(h)
    return True


# -------------------------------------------------------------------- self-test

_done = False


def selftest():
    global _done
    if _done:
        return
    # merkle root of testnet block (12 transactions; ids in internal order)
    hx = [
        "c117ea8ec828342f4dfb0ad6bd140e03a50720ece40169ee38bdc15d9eb64cf5",
        "c131474164b412e3406696da1ee20ab0fc9bf41c8f05fa8ceea7a08d672d7cc5",
        "f391da6ecfeed1814efae39e7fcb3838ae0b02c02ae7d0a5848a66947c0727b0",
        "3d238a92a94532b946c90e19c49351c763696cff3db400485b813aecb8a13181",
        "10092f2633be5f3ce349bf9ddbde36caa3dd10dfa0ec8106bce23acbff637dae",
        "7d37b3d54fa6a64869084bfd2e831309118b9e833610e6228adacdbd1b4ba161",
        "8118a77e542892fe15ae3fc771a4abfd2f5d5d5997544c3487ac36b5c85170fc",
        "dff6879848c2c9b62fe652720b8df5272093acfaa45a43cdb3696fe2466a3877",
        "b825c0745f46ac58f7d3759e6dc535a1fec7820377f24d4c2c6ad2cc55c0cb59",
        "95513952a04bd8992721e9b7e2937f1c04ba31e0469fbe615a78197f68f52b7c",
        "2e6d722e5e4dbdf2447ddecc9f7dabb8e299bae921c99ad5b0184cd9eb8e5908",
        "b13a750047bc0bdceb2473e5fe488c2596d7a7124b4e716fdd29b046ef99bbf0",
    ]
    ids = [bytes.fromhex(x) for x in hx]
    root12 = bytes.fromhex("acbcab8bcc1af95d8d563b77d24c3d19b18f1486383d75a5085c4e86c86beed6")
    assert merkle_root(ids) == root12
    lvl1 = merkle_levels(ids[:11])[1]
    assert lvl1[0].hex() == "8b30c5ba100f6f2e5ad1e2a742e5020491240f8eb514fe97c713c31718ad7ecd"
    assert lvl1[5].hex() == "1796cd3ca4fef00236e07b723d3ed88e1ac433acaaa21da64c4b33c946cf3d10"  # odd: dup
    # genesis block: a single transaction, root == txid
    cb = bytes.fromhex("4a5e1e4baab89f3a32518a88c31bc87f618f76673e2cc77ab2127b7afdeda33b")[::-1]
    assert merkle_root([cb]) == cb
    # a real testnet merkleblock (3519 transactions, 10 hashes, flags b55635)
    mb = bytes.fromhex(
        "00000020df3b053dc46f162a9b00c7f0d5124e2676d47bbe7c5d0793a500000000000000ef445fef2ed495c2"
        "75892206ca533e7411907971013ab83e3b47bd0d692d14d4dc7c835b67d8001ac157e670bf0d00000aba412a"
        "0d1480e370173072c9562becffe87aa661c1e4a6dbc305d38ec5dc088a7cf92e6458aca7b32edae818f9c2c9"
        "8c37e06bf72ae0ce80649a38655ee1e27d34d9421d940b16732f24b94023e9d572a7f9ab8023434a4feb532d"
        "2adfc8c2c2158785d1bd04eb99df2e86c54bc13e139862897217400def5d72c280222c4cbaee7261831e1550"
        "dbb8fa82853e9fe506fc5fda3f7b919d8fe74b6282f92763cef8e625f977af7c8619c32a369b832bc2d051ec"
        "d9c73c51e76370ceabd4f25097c256597fa898d404ed53425de608ac6bfe426f6e2bb457f1c554866eb69dcb"
        "8d6bf6f880e9a59b3cd053e6c7060eeacaacf4dac6697dac20e4bd3f38a2ea2543d1ab7953e3430790a9f81e"
        "1c67f5b58c825acf46bd02848384eebe9af917274cdfbb1a28a5d58a23a17977def0de10d644258d9c54f886"
        "d47d293a411cb6226103b55635")
    hdr = mb[:80]
    (n,) = struct.unpack_from("<I", mb, 80)
    assert n == 3519 and mb[84] == 10
    hashes = [mb[85 + 32 * i: 85 + 32 * (i + 1)] for i in range(10)]
    assert mb[85 + 320] == 3
    flags = mb[85 + 321:]
    res = extract_matches(n, bytes_to_bits(flags), hashes)
    assert res is not None and res[0] == hdr[36:68]
    assert [m[::-1].hex() for m in res[1]] == [
        "6122b61c413a297dd486f8549c8d2544d610def0de7779a1238ad5a5281abbdf"]
    assert merkleblock_msg(hdr, n, hashes, flags) == mb
    assert check_pow(hdr, POW_LIMIT_MAINNET)
    # builder/extractor agree with each other on every tree of 1..7 leaves and every match set,
    # and with the BIP37 worked shape (7 leaves, match index 4 is not needed here)
    for k in range(1, 8):
        tx = [sha256d(bytes([k, i])) for i in range(k)]
        for mask in range(1 << k):
            m = [(mask >> i) & 1 == 1 for i in range(k)]
            b, h = build_partial(tx, m)
            r = extract_matches(k, bytes_to_bits(bits_to_bytes(b)), h)
            assert r is not None and r[0] == merkle_root(tx)
            assert r[1] == [t for t, f in zip(tx, m) if f] and r[2] == [i for i in range(k) if m[i]]
            assert len(h) <= k and (mask != 0 or (b == [0] and h == [merkle_root(tx)]))
    assert [tree_width(7, h) for h in range(4)] == [7, 4, 2, 1] and tree_height(7) == 3
    assert tree_height(1) == 0 and tree_height(2) == 1 and tree_height(3519) == 12
    # CVE-2012-2459: [a, b, c] and [a, b, c, c] share a root; the 4-leaf proof must be refused
    a, b_, c = (sha256d(bytes([i])) for i in range(3))
    assert merkle_root([a, b_, c]) == merkle_root([a, b_, c, c])
    bb, hh = build_partial([a, b_, c, c], [False, False, True, True])
    assert extract_matches(4, bb, hh) is None
    # Bitcoin Core arith_uint256_tests (bignum_SetCompact)
    for compact, value, back in [
        (0x00123456, 0, 0), (0x01003456, 0, 0), (0x02000056, 0, 0), (0x03000000, 0, 0),
        (0x04000000, 0, 0), (0x00923456, 0, 0), (0x01803456, 0, 0), (0x02800056, 0, 0),
        (0x03800000, 0, 0), (0x04800000, 0, 0),
        (0x01123456, 0x12, 0x01120000), (0x02123456, 0x1234, 0x02123400),
        (0x03123456, 0x123456, 0x03123456), (0x04123456, 0x12345600, 0x04123456),
        (0x05009234, 0x92340000, 0x05009234),
        (0x20123456, 0x1234560000000000000000000000000000000000000000000000000000000000, 0x20123456),
    ]:
        v, neg, ovf = set_compact(compact)
        assert v == value and not neg and not ovf, hex(compact)
        assert get_compact(v) == back, hex(compact)
    assert set_compact(0x01FEDCBA) == (0x7E, True, False) and get_compact(0x7E, True) == 0x01FE0000
    assert set_compact(0x04923456) == (0x12345600, True, False)
    assert get_compact(0x12345600, True) == 0x04923456
    assert set_compact(0xFF123456)[2] is True
    assert get_compact(0x80) == 0x02008000
    assert set_compact(0x1D00FFFF)[0] == 0xFFFF << 208 and get_compact(POW_LIMIT_MAINNET) == 0x1D00FFFF
    assert get_compact(POW_LIMIT_REGTEST) == 0x207FFFFF
    # Bitcoin Core pow_tests (get_next_work*, mainnet)
    assert next_work(0x1D00FFFF, 1262152739 - 1261130161) == 0x1D00D86A
    assert next_work(0x1D00FFFF, 1233061996 - 1231006505) == 0x1D00FFFF  # constrained by the limit
    assert next_work(0x1C05A3F4, 1279297671 - 1279008237) == 0x1C0168FD  # lower clamp
    assert next_work(0x1C387F6F, 1269211443 - 1263163443) == 0x1D00E1FD  # upper clamp
    # mainnet block 125552 and its predecessor commitment
    h125552 = bytes.fromhex(
        "0100000081cd02ab7e569e8bcd9317e2fe99f2de44d49ab2b8851ba4a308000000000000e320b6c2fffc8d75"
        "0423db8b1eb942ae710e951ed797f7affc8892b0f1fc122bc7f5d74df2b9441a42a14695")
    assert sha256d(h125552)[::-1].hex() == (
        "00000000000000001e8d6829a8a21adc5d38d0a473b144b6765798e61f98bd1d")
    assert check_pow(h125552, POW_LIMIT_MAINNET)
    assert not check_pow(h125552[:76] + b"\x00\x00\x00\x00", POW_LIMIT_MAINNET)
    assert chain_valid([h125552], POW_LIMIT_MAINNET)
    _done = True
