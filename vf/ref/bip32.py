"""Independent BIP32 + Base58Check reference (written from BIP32 / the Bitcoin wiki)."""
import hashlib
import hmac

from vf.ref import ec

B58 = "123456789ABCDEFGHJKLMNPQRSTUVWXYZabcdefghijkmnopqrstuvwxyz"


def sha256d(b):
    return hashlib.sha256(hashlib.sha256(b).digest()).digest()


def hash160(b):
    return hashlib.new("ripemd160", hashlib.sha256(b).digest()).digest()


def b58encode(b):
    n = int.from_bytes(b, "big")
    out = ""
    while n:
        n, r = divmod(n, 58)
        out = B58[r] + out
    pad = len(b) - len(b.lstrip(b"\x00"))
    return "1" * pad + out


def b58decode(s):
    """raw base58 -> bytes, or None on a character outside the alphabet"""
    n = 0
    for ch in s:
        i = B58.find(ch)
        if i < 0:
            return None
        n = n * 58 + i
    pad = len(s) - len(s.lstrip("1"))
    body = n.to_bytes((n.bit_length() + 7) // 8, "big") if n else b""
    return b"\x00" * pad + body


def b58check_encode(payload):
    return b58encode(payload + sha256d(payload)[:4])


def b58check_decode(s):
    """payload or None (bad character, too short or checksum mismatch)"""
    raw = b58decode(s)
    if raw is None or len(raw) < 4:
        return None
    if sha256d(raw[:-4])[:4] != raw[-4:]:
        return None
    return raw[:-4]


HARD = 0x80000000


class Node:
    """k is None for public-only nodes"""

    def __init__(self, k, K, c, depth=0, fpr=b"\x00" * 4, num=0):
        self.k, self.K, self.c, self.depth, self.fpr, self.num = k, K, c, depth, fpr, num

    @classmethod
    def master(cls, seed):
        I = hmac.new(b"Bitcoin seed", seed, hashlib.sha512).digest()
        k = int.from_bytes(I[:32], "big")
        if k == 0 or k >= ec.N:
            raise ValueError("invalid master")
        return cls(k, ec.mul(k), I[32:])

    def fingerprint(self):
        return hash160(ec.sec(self.K))[:4]

    def ckd_priv(self, i):
        if self.k is None:
            raise ValueError("no private key")
        if i >= HARD:
            data = b"\x00" + self.k.to_bytes(32, "big") + i.to_bytes(4, "big")
        else:
            data = ec.sec(self.K) + i.to_bytes(4, "big")
        I = hmac.new(self.c, data, hashlib.sha512).digest()
        il = int.from_bytes(I[:32], "big")
        k = (il + self.k) % ec.N
        if il >= ec.N or k == 0:
            raise ValueError("invalid child")
        return Node(k, ec.mul(k), I[32:], self.depth + 1, self.fingerprint(), i)

    def ckd_pub(self, i):
        if i >= HARD:
            raise ValueError("hardened from public")
        I = hmac.new(self.c, ec.sec(self.K) + i.to_bytes(4, "big"), hashlib.sha512).digest()
        il = int.from_bytes(I[:32], "big")
        K = ec.add(ec.mul(il), self.K)
        if il >= ec.N or K is None:
            raise ValueError("invalid child")
        return Node(None, K, I[32:], self.depth + 1, self.fingerprint(), i)

    def neuter(self):
        return Node(None, self.K, self.c, self.depth, self.fpr, self.num)

    def derive(self, indexes):
        n = self
        for i in indexes:
            n = n.ckd_priv(i) if n.k is not None else n.ckd_pub(i)
        return n

    def raw_pub(self, version):
        return (version + bytes([self.depth]) + self.fpr + self.num.to_bytes(4, "big") + self.c
                + ec.sec(self.K))

    def raw_prv(self, version):
        return (version + bytes([self.depth]) + self.fpr + self.num.to_bytes(4, "big") + self.c
                + b"\x00" + self.k.to_bytes(32, "big"))

    def xpub(self, version=bytes.fromhex("0488b21e")):
        return b58check_encode(self.raw_pub(version))

    def xprv(self, version=bytes.fromhex("0488ade4")):
        return b58check_encode(self.raw_prv(version))


def parse_path(path):
    """'m/44h/0'/1' -> list of indexes (accepts ', h, H)"""
    parts = path.split("/")
    if parts[0] in ("m", "M"):
        parts = parts[1:]
    out = []
    for p in parts:
        if p == "":
            continue
        if p[-1] in "'hH":
            out.append(int(p[:-1]) + HARD)
        else:
            out.append(int(p))
    return out


def selftest():
    # BIP32 test vector 1
    m = Node.master(bytes.fromhex("000102030405060708090a0b0c0d0e0f"))
    assert m.xpub() == (
        "xpub661MyMwAqRbcFtXgS5sYJABqqG9YLmC4Q1Rdap9gSE8NqtwybGhePY2gZ29ESFjqJoCu1Rupje8YtGqsefD265"
        "TMg7usUDFdp6W1EGMcet8")
    assert m.xprv() == (
        "xprv9s21ZrQH143K3QTDL4LXw2F7HEK3wJUD2nW2nRk4stbPy6cq3jPPqjiChkVvvNKmPGJxWUtg6LnF5kejMRNNU3"
        "TGtRBeJgk33yuGBxrMPHi")
    n = m.derive(parse_path("m/0'/1/2'/2/1000000000"))
    assert n.xpub() == (
        "xpub6H1LXWLaKsWFhvm6RVpEL9P4KfRZSW7abD2ttkWP3SSQvnyA8FSVqNTEcYFgJS2UaFcxupHiYkro49S8yGasTv"
        "XEYBVPamhGW6cFJodrTHy")
    assert n.xprv() == (
        "xprvA41z7zogVVwxVSgdKUHDy1SKmdb533PjDz7J6N6mV6uS3ze1ai8FHa8kmHScGpWmj4WggLyQjgPie1rFSruoUi"
        "hUZREPSL39UNdE3BBDu76")
    # public derivation agrees
    a = m.derive([HARD]).neuter().ckd_pub(1)
    b = m.derive([HARD, 1])
    assert a.K == b.K and a.c == b.c and a.fpr == b.fpr
    # vector 2 master
    m2 = Node.master(bytes.fromhex(
        "fffcf9f6f3f0edeae7e4e1dedbd8d5d2cfccc9c6c3c0bdbab7b4b1aeaba8a5a29f9c999693908d8a8784817e7b"
        "7875726f6c696663605d5a5754514e4b484542"))
    assert m2.derive(parse_path("m/0/2147483647'/1/2147483646'/2")).xpub() == (
        "xpub6FnCn6nSzZAw5Tw7cgR9bi15UV96gLZhjDstkXXxvCLsUXBGXPdSnLFbdpq8p9HmGsApME5hQTZ3emM2rnY5agb"
        "9rXpVGyy3bdW6EEgAtqt")
    assert b58check_decode("1BvBMSEYstWetqTFn5Au4m4GFg7xJaNVN2") is not None
    assert b58check_decode("1BvBMSEYstWetqTFn5Au4m4GFg7xJaNVN3") is None


_done = False


def ensure_selftest():
    global _done
    if not _done:
        ec.ensure_selftest()
        selftest()
        _done = True
