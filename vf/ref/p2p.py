"""Reference P2P wire layouts, written from the Bitcoin protocol documentation
(https://en.bitcoin.it/wiki/Protocol_documentation, developer reference "P2P network") and
BIP157/BIP158.  Everything is built with ``struct``; hashes are passed and returned in
*internal* (wire) byte order unless a name says ``display``.

Message header (24 bytes):   magic[4] | command[12] NUL padded | length u32 LE | checksum[4] | payload
  checksum = first four bytes of SHA256(SHA256(payload)).
net_addr (inside version, no time field): services u64 LE | IPv6/IPv4-mapped address[16] |
  port u16 in NETWORK BYTE ORDER (big endian).
"""
import hashlib
import struct

MAGIC = {
    "mainnet": bytes([0xF9, 0xBE, 0xB4, 0xD9]),
    "testnet": bytes([0x0B, 0x11, 0x09, 0x07]),
    "signet": bytes([0x0A, 0x03, 0xCF, 0x40]),
    "regtest": bytes([0xFA, 0xBF, 0xB5, 0xDA]),
}
NETWORKS = ["mainnet", "testnet", "signet", "regtest"]
HEADER_LEN = 24


def sha256d(b):
    return hashlib.sha256(hashlib.sha256(b).digest()).digest()


# ------------------------------------------------------------------ primitives


def compact_size(n):
    if not 0 <= n <= 0xFFFFFFFFFFFFFFFF:
        raise ValueError("compact size out of range")
    if n <= 0xFC:
        return struct.pack("<B", n)
    if n <= 0xFFFF:
        return b"\xfd" + struct.pack("<H", n)
    if n <= 0xFFFFFFFF:
        return b"\xfe" + struct.pack("<I", n)
    return b"\xff" + struct.pack("<Q", n)


def read_compact_size(b, pos=0):
    """(value, new position); raises on truncation"""
    first = b[pos]
    if first < 0xFD:
        return first, pos + 1
    fmt, w = {0xFD: ("<H", 2), 0xFE: ("<I", 4), 0xFF: ("<Q", 8)}[first]
    if pos + 1 + w > len(b):
        raise ValueError("truncated compact size")
    return struct.unpack_from(fmt, b, pos + 1)[0], pos + 1 + w


def var_str(b):
    return compact_size(len(b)) + b


def uint_le(n, width):
    """unsigned little-endian, any width, by repeated division (struct for the native widths)"""
    if n < 0 or n >> (8 * width):
        raise ValueError("does not fit")
    fmt = {1: "<B", 2: "<H", 4: "<I", 8: "<Q"}.get(width)
    if fmt:
        return struct.pack(fmt, n)
    out = bytearray()
    for _ in range(width):
        n, r = divmod(n, 256)
        out.append(r)
    return bytes(out)


def uint_be(n, width):
    if n < 0 or n >> (8 * width):
        raise ValueError("does not fit")
    fmt = {1: ">B", 2: ">H", 4: ">I", 8: ">Q"}.get(width)
    if fmt:
        return struct.pack(fmt, n)
    return uint_le(n, width)[::-1]


# -------------------------------------------------------------------- envelope


def envelope(network, command, payload):
    if len(command) > 12:
        raise ValueError("command too long")
    return (
        MAGIC[network]
        + command + bytes(12 - len(command))
        + struct.pack("<I", len(payload))
        + sha256d(payload)[:4]
        + payload
    )


def parse_envelope(data, network):
    """None when the envelope must be rejected, else (command field[12], payload, bytes consumed)."""
    if len(data) < HEADER_LEN:
        return None
    if data[:4] != MAGIC[network]:
        return None
    command = data[4:16]
    (length,) = struct.unpack_from("<I", data, 16)
    checksum = data[20:24]
    if len(data) - HEADER_LEN < length:
        return None  # fewer payload bytes than declared
    payload = data[HEADER_LEN:HEADER_LEN + length]
    if sha256d(payload)[:4] != checksum:
        return None
    return command, payload, HEADER_LEN + length


def region(pos):
    """which envelope field byte offset ``pos`` belongs to"""
    if pos < 4:
        return "magic"
    if pos < 16:
        return "command"
    if pos < 20:
        return "length"
    if pos < 24:
        return "checksum"
    return "payload"


# -------------------------------------------------------------------- messages


def header80(version, prev_block, merkle_root, timestamp, bits, nonce):
    """block header: version i32 | prev[32] | root[32] | time u32 | nBits u32 | nonce u32"""
    assert len(prev_block) == 32 and len(merkle_root) == 32
    return (
        struct.pack("<i", version) + prev_block + merkle_root
        + struct.pack("<III", timestamp, bits, nonce)
    )


def net_addr(services, ipv4, port):
    assert len(ipv4) == 4
    return struct.pack("<Q", services) + bytes(10) + b"\xff\xff" + ipv4 + struct.pack(">H", port)


def version_msg(version, services, timestamp, recv_services, recv_ip, recv_port, from_services,
                from_ip, from_port, nonce8, user_agent, start_height, relay):
    assert len(nonce8) == 8
    return (
        struct.pack("<iQq", version, services, timestamp)
        + net_addr(recv_services, recv_ip, recv_port)
        + net_addr(from_services, from_ip, from_port)
        + nonce8
        + var_str(user_agent)
        + struct.pack("<i", start_height)
        + struct.pack("<?", bool(relay))
    )


VERSION_PORT_OFFSETS = (44, 70)  # offsets of the two port fields in a version payload


def getheaders_msg(version, locator, hash_stop):
    assert all(len(h) == 32 for h in locator) and len(hash_stop) == 32
    return struct.pack("<I", version) + compact_size(len(locator)) + b"".join(locator) + hash_stop


def headers_msg(headers, tx_counts=None):
    parts = [compact_size(len(headers))]
    for i, h in enumerate(headers):
        assert len(h) == 80
        parts.append(h + compact_size(0 if tx_counts is None else tx_counts[i]))
    return b"".join(parts)


def inv_msg(items):
    """getdata / inv payload; items = [(type u32, hash[32])]"""
    parts = [compact_size(len(items))]
    for t, h in items:
        assert len(h) == 32
        parts.append(struct.pack("<I", t) + h)
    return b"".join(parts)


def ping_msg(nonce):
    return struct.pack("<Q", nonce)


def getcfilters_msg(filter_type, start_height, stop_hash):
    assert len(stop_hash) == 32
    return struct.pack("<BI", filter_type, start_height) + stop_hash


getcfheaders_msg = getcfilters_msg


def cfilter_msg(filter_type, block_hash, filter_bytes):
    assert len(block_hash) == 32
    return struct.pack("<B", filter_type) + block_hash + var_str(filter_bytes)


def cfheaders_msg(filter_type, stop_hash, prev_filter_header, filter_hashes):
    assert len(stop_hash) == 32 and len(prev_filter_header) == 32
    return (
        struct.pack("<B", filter_type) + stop_hash + prev_filter_header
        + compact_size(len(filter_hashes)) + b"".join(filter_hashes)
    )


def getcfcheckpt_msg(filter_type, stop_hash):
    assert len(stop_hash) == 32
    return struct.pack("<B", filter_type) + stop_hash


def cfcheckpt_msg(filter_type, stop_hash, filter_headers):
    assert len(stop_hash) == 32
    return (
        struct.pack("<B", filter_type) + stop_hash
        + compact_size(len(filter_headers)) + b"".join(filter_headers)
    )


def filter_header_chain(prev_header, filter_hashes):
    """BIP157: header_i = SHA256d(filter_hash_i || header_{i-1})"""
    cur = prev_header
    for fh in filter_hashes:
        cur = sha256d(fh + cur)
    return cur


# ------------------------------------------------- minimal BIP158 filter writer

GCS_P = 19


def gcs_bytes(sorted_values):
    """N as compact size, then the Golomb-Rice (P=19) coded deltas, MSB-first bit stream, zero padded"""
    bits = []
    last = 0
    for v in sorted_values:
        d = v - last
        assert d >= 0
        last = v
        bits.extend([1] * (d >> GCS_P))
        bits.append(0)
        for i in range(GCS_P - 1, -1, -1):
            bits.append((d >> i) & 1)
    while len(bits) % 8:
        bits.append(0)
    out = bytearray()
    for i in range(0, len(bits), 8):
        byte = 0
        for b in bits[i:i + 8]:
            byte = (byte << 1) | b
        out.append(byte)
    return compact_size(len(sorted_values)) + bytes(out)


def gcs_values(blob):
    n, pos = read_compact_size(blob, 0)
    bitpos = pos * 8

    def bit():
        nonlocal bitpos
        b = (blob[bitpos >> 3] >> (7 - (bitpos & 7))) & 1
        bitpos += 1
        return b

    out = []
    cur = 0
    for _ in range(n):
        q = 0
        while bit():
            q += 1
        r = 0
        for _ in range(GCS_P):
            r = (r << 1) | bit()
        cur += (q << GCS_P) | r
        out.append(cur)
    return out


# -------------------------------------------------------------------- self-test

_done = False


def selftest():
    global _done
    if _done:
        return
    # verack on mainnet (protocol documentation example)
    assert envelope("mainnet", b"verack", b"") == bytes.fromhex(
        "f9beb4d976657261636b000000000000000000005df6e0e2")
    # version message captured on mainnet (/Satoshi:0.9.3/), header + payload
    ver = bytes.fromhex(
        "f9beb4d976657273696f6e0000000000650000005f1a69d2721101000100000000000000bc8f5e54000000"
        "00010000000000000000000000000000000000ffffc61b6409208d01000000000000000000000000000000"
        "0000ffffcb0071c0208d128035cbc97953f80f2f5361746f7368693a302e392e332fcf05050001")
    payload = version_msg(
        70002, 1, 0x545E8FBC, 1, bytes([198, 27, 100, 9]), 8333, 1, bytes([203, 0, 113, 192]), 8333,
        bytes.fromhex("128035cbc97953f8"), b"/Satoshi:0.9.3/", 329167, True)
    assert envelope("mainnet", b"version", payload) == ver
    assert payload[44:46] == b"\x20\x8d" and payload[70:72] == b"\x20\x8d"
    c, p, used = parse_envelope(ver, "mainnet")
    assert c == b"version" + bytes(5) and p == payload and used == len(ver)
    assert parse_envelope(ver, "testnet") is None
    assert parse_envelope(ver[:-1], "mainnet") is None
    assert parse_envelope(ver[:20] + b"\x00" + ver[21:], "mainnet") is None
    # genesis block header
    gen = bytes.fromhex(
        "0100000000000000000000000000000000000000000000000000000000000000000000003ba3edfd7a7b12"
        "b27ac72c3e67768f617fc81bc3888a51323a9fb8aa4b1e5e4a29ab5f49ffff001d1dac2b7c")
    root = bytes.fromhex("4a5e1e4baab89f3a32518a88c31bc87f618f76673e2cc77ab2127b7afdeda33b")[::-1]
    assert header80(1, bytes(32), root, 1231006505, 0x1D00FFFF, 2083236893) == gen
    assert sha256d(gen)[::-1].hex() == (
        "000000000019d6689c085ae165831e934ff763ae46a2a6c172b3f1b60a8ce26f")
    # getheaders / getdata examples (Programming Bitcoin ch. 10/12)
    blk = bytes.fromhex("0000000000000000001237f46acddf58578a37e213d2a6edc4884a2fcad05ba3")
    assert getheaders_msg(70015, [blk[::-1]], bytes(32)).hex() == (
        "7f11010001a35bd0ca2f4a88c4eda6d213e2378a5758dfcd6af43712000000000000000000"
        + "00" * 32)
    b1 = bytes.fromhex("00000000000000cac712b726e4326e596170574c01a16001692510c44025eb30")
    b2 = bytes.fromhex("00000000000000beb88910c46f6b442312361c6693a7fb52065b583979844910")
    assert inv_msg([(3, b1[::-1]), (3, b2[::-1])]).hex() == (
        "020300000030eb2540c41025690160a1014c577061596e32e426b712c7ca00000000000000030000001049"
        "847939585b0652fba793661c361223446b6fc41089b8be00000000000000")
    # compact size boundaries
    assert compact_size(0xFC) == b"\xfc" and compact_size(0xFD) == b"\xfd\xfd\x00"
    assert compact_size(0xFFFF) == b"\xfd\xff\xff" and compact_size(0x10000) == b"\xfe\x00\x00\x01\x00"
    assert compact_size(0xFFFFFFFF) == b"\xfe\xff\xff\xff\xff"
    assert compact_size(0x100000000) == b"\xff\x00\x00\x00\x00\x01\x00\x00\x00"
    assert compact_size(2**64 - 1) == b"\xff" + b"\xff" * 8
    for n in (0, 0xFC, 0xFD, 0xFFFF, 0x10000, 0xFFFFFFFF, 0x100000000, 2**64 - 1):
        assert read_compact_size(compact_size(n) + b"x", 0) == (n, len(compact_size(n)))
    assert uint_le(0x010203, 3) == b"\x03\x02\x01" and uint_be(0x010203, 3) == b"\x01\x02\x03"
    assert uint_le(1, 16) == b"\x01" + bytes(15) and uint_be(1, 16) == bytes(15) + b"\x01"
    # BIP158 test vector: basic filter of the testnet genesis block is 019dfca8
    assert gcs_values(bytes.fromhex("019dfca8")) == [(1 << 19) | 0b0111011111110010101]
    assert gcs_bytes(gcs_values(bytes.fromhex("019dfca8"))) == bytes.fromhex("019dfca8")
    # BIP157 messages of the repository's unit tests (testnet block 0x...5f33)
    stop = bytes.fromhex("000000006f27ddfe1dd680044a34548f41bed47eba9e6f0b310da21423bc5f33")
    assert getcfilters_msg(0, 1, stop[::-1]) == b"\x00\x01\x00\x00\x00" + stop[::-1]
    assert getcfcheckpt_msg(0, stop[::-1]) == b"\x00" + stop[::-1]
    assert cfheaders_msg(0, stop[::-1], bytes(32), [bytes(32)]).hex() == (
        "00335fbc2314a20d310b6f9eba7ed4be418f54344a0480d61dfedd276f00000000" + "00" * 32 + "01"
        + "00" * 32)
    assert cfcheckpt_msg(0, stop[::-1], [bytes(32)]).hex() == (
        "00335fbc2314a20d310b6f9eba7ed4be418f54344a0480d61dfedd276f0000000001" + "00" * 32)
    vals = [570774, 1341840, 1483084]
    assert gcs_bytes(vals) == bytes.fromhex("0385acb4f0fe889ef0") and gcs_values(gcs_bytes(vals)) == vals
    _done = True
