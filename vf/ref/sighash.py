"""Reference signature-hash algorithms, written from Bitcoin Core's interpreter.cpp
(SignatureHash), BIP143 and BIP341/342.  Operates on the dict transactions of
vf.ref.txser plus, per input, the spent output: {"amount": int, "spk": bytes}."""
import hashlib
import struct

from vf.ref import txser
from vf.ref.ec import tagged_hash
from vf.ref.txser import compact_size, sha256d, varstr

ALL, NONE, SINGLE, ACP = 1, 2, 3, 0x80
ONE = (1).to_bytes(32, "little")  # uint256(1) as stored; buidl reports it as a big-endian int


class Invalid(Exception):
    """the digest is undefined (taproot SINGLE without matching output, bad hash type)"""


def _outpoint(i):
    return i["prev_tx"][::-1] + struct.pack("<I", i["prev_index"])


def legacy(tx, idx, script_code, hash_type):
    """returns the 32 digest bytes (ONE for the out-of-range cases)"""
    ins, outs = tx["ins"], tx["outs"]
    if idx >= len(ins):
        return ONE
    base = hash_type & 0x1F
    if base == SINGLE and idx >= len(outs):
        return ONE
    acp = bool(hash_type & ACP)
    s = struct.pack("<I", tx["version"])
    if acp:
        s += compact_size(1)
        s += _outpoint(ins[idx]) + varstr(script_code) + struct.pack("<I", ins[idx]["sequence"])
    else:
        s += compact_size(len(ins))
        for n, i in enumerate(ins):
            if n == idx:
                s += _outpoint(i) + varstr(script_code) + struct.pack("<I", i["sequence"])
            else:
                seq = 0 if base in (SINGLE, NONE) else i["sequence"]
                s += _outpoint(i) + varstr(b"") + struct.pack("<I", seq)
    if base == NONE:
        s += compact_size(0)
    elif base == SINGLE:
        s += compact_size(idx + 1)
        for n in range(idx):
            s += b"\xff" * 8 + b"\x00"
        s += txser.ser_out(outs[idx])
    else:
        s += compact_size(len(outs)) + b"".join(txser.ser_out(o) for o in outs)
    s += struct.pack("<I", tx["locktime"]) + struct.pack("<I", hash_type)
    return sha256d(s)


def bip143(tx, idx, script_code, amount, hash_type):
    ins, outs = tx["ins"], tx["outs"]
    base = hash_type & 0x1F
    acp = bool(hash_type & ACP)
    zero = bytes(32)
    hp = zero if acp else sha256d(b"".join(_outpoint(i) for i in ins))
    hs = (zero if (acp or base in (SINGLE, NONE))
          else sha256d(b"".join(struct.pack("<I", i["sequence"]) for i in ins)))
    if base not in (SINGLE, NONE):
        ho = sha256d(b"".join(txser.ser_out(o) for o in outs))
    elif base == SINGLE and idx < len(outs):
        ho = sha256d(txser.ser_out(outs[idx]))
    else:
        ho = zero
    i = ins[idx]
    s = (struct.pack("<I", tx["version"]) + hp + hs + _outpoint(i) + varstr(script_code)
         + struct.pack("<Q", amount) + struct.pack("<I", i["sequence"]) + ho
         + struct.pack("<I", tx["locktime"]) + struct.pack("<I", hash_type))
    return sha256d(s)


def bip341(tx, idx, spent, hash_type, annex=None, leaf_hash=None):
    """spent: list of {"amount", "spk"} for every input; annex: bytes incl. the 0x50 prefix"""
    if hash_type not in (0, 1, 2, 3, 0x81, 0x82, 0x83):
        raise Invalid("hash type")
    ins, outs = tx["ins"], tx["outs"]
    base = 1 if hash_type == 0 else hash_type & 3
    acp = bool(hash_type & ACP)
    sha = lambda b: hashlib.sha256(b).digest()  # noqa
    s = b"\x00" + bytes([hash_type]) + struct.pack("<I", tx["version"]) + struct.pack("<I", tx["locktime"])
    if not acp:
        s += sha(b"".join(_outpoint(i) for i in ins))
        s += sha(b"".join(struct.pack("<Q", p["amount"]) for p in spent))
        s += sha(b"".join(varstr(p["spk"]) for p in spent))
        s += sha(b"".join(struct.pack("<I", i["sequence"]) for i in ins))
    if base == ALL:
        s += sha(b"".join(txser.ser_out(o) for o in outs))
    spend_type = (2 if leaf_hash is not None else 0) + (1 if annex is not None else 0)
    s += bytes([spend_type])
    if acp:
        i = ins[idx]
        s += _outpoint(i) + struct.pack("<Q", spent[idx]["amount"]) + varstr(spent[idx]["spk"])
        s += struct.pack("<I", i["sequence"])
    else:
        s += struct.pack("<I", idx)
    if annex is not None:
        s += sha(varstr(annex))
    if base == SINGLE:
        if idx >= len(outs):
            raise Invalid("SINGLE without matching output")
        s += sha(txser.ser_out(outs[idx]))
    if leaf_hash is not None:
        s += leaf_hash + b"\x00" + b"\xff\xff\xff\xff"
    return tagged_hash("TapSighash", s)


def tapleaf_hash(script, leaf_version=0xC0):
    return tagged_hash("TapLeaf", bytes([leaf_version]) + varstr(script))


def selftest():
    # BIP143 "Native P2WPKH" worked example
    tx = {
        "version": 1, "segwit": False, "locktime": 0x11,
        "ins": [
            {"prev_tx": bytes.fromhex("fff7f7881a8099afa6940d42d1e7f6362bec38171ea3edf433541db4e4ad969f")[::-1],
             "prev_index": 0, "script": [], "sequence": 0xFFFFFFEE, "witness": []},
            {"prev_tx": bytes.fromhex("ef51e1b804cc89d182d279655c3aa89e815b1b309fe287d9b2b55d57b90ec68a")[::-1],
             "prev_index": 1, "script": [], "sequence": 0xFFFFFFFF, "witness": []},
        ],
        "outs": [
            {"amount": 0x0000000006B22C20, "script": [0x76, 0xA9, bytes.fromhex("8280b37df378db99f66f85c95a783a76ac7a6d59"), 0x88, 0xAC]},
            {"amount": 0x000000000D519390, "script": [0x76, 0xA9, bytes.fromhex("3bde42dbee7e4dbe6a21b2d50ce2f0167faa8159"), 0x88, 0xAC]},
        ],
    }
    assert txser.serialize(tx).hex() == (
        "0100000002fff7f7881a8099afa6940d42d1e7f6362bec38171ea3edf433541db4e4ad969f0000000000eeffffff"
        "ef51e1b804cc89d182d279655c3aa89e815b1b309fe287d9b2b55d57b90ec68a0100000000ffffffff02202cb206"
        "000000001976a9148280b37df378db99f66f85c95a783a76ac7a6d5988ac9093510d000000001976a9143bde42db"
        "ee7e4dbe6a21b2d50ce2f0167faa815988ac11000000")
    sc = bytes.fromhex("76a9141d0f172a0ecb48aee1be1f2687d2963ae33f71a188ac")
    d = bip143(tx, 1, sc, 600000000, 1)
    assert d.hex() == "c37af31116d1b27caf68aae9e3ac82f1477929014d5b917657d0eb49478cb670", d.hex()
    # legacy: the digest of the Hal Finney transaction input verified in txser.selftest is
    # exercised indirectly by C06 (library-signed spends must verify under the reference ECDSA).
    # BIP341 wallet test vector (keyPathSpending[0]), input 0: SIGHASH_SINGLE|... checked below
    _bip341_vector()


def _bip341_vector():
    raw = bytes.fromhex(
        "02000000097de20cbff686da83a54981d2b9bab3586f4ca7e48f57f5b55963115f3b334e9c010000000000000000"
        "d7b7cab57b1393ace2d064f4d4a2cb8af6def61273e127517d44759b6dafdd990000000000fffffffff8e1f583384"
        "333689228c5d28eac13366be082dc57441760d957275419a418420000000000fffffffff0689180aa63b30cb162a7"
        "3c6d2a38b7eeda2a83ece74310fda0843ad604853b0100000000feffffffaa5202bdf6d8ccd2ee0f0202afbbb7461"
        "d9264a25e5bfd3c5a52ee1239e0ba6c0000000000feffffff956149bdc66faa968eb2be2d2faa29718acbfe3941215"
        "893a2a3446d32acd050000000000000000000e664b9773b88c09c32cb70a2a3e4da0ced63b7ba3b22f848531bbb1d"
        "5d5f4c94010000000000000000e9aa6b8e6c9de67619e6a3924ae25696bb7b694bb677a632a74ef7eadfd4eabf00"
        "00000000ffffffffa778eb6a263dc090464cd125c466b5a99667720b1c110468831d058aa1b82af10100000000ffff"
        "ffff0200ca9a3b000000001976a91406afd46bcdfd22ef94ac122aa11f241244a37ecc88ac807840cb000000002"
        "0ac9a87f5594be208f8532db38cff670c450ed2fea8fcdefcc9a663f78bab962b0065cd1d")
    # parse with a tiny independent reader
    pos = 0
    version = struct.unpack_from("<I", raw, pos)[0]
    pos += 4
    n, pos = txser.read_compact_size(raw, pos)
    ins = []
    for _ in range(n):
        prev = raw[pos:pos + 32][::-1]
        idx = struct.unpack_from("<I", raw, pos + 32)[0]
        pos += 36
        ln, pos = txser.read_compact_size(raw, pos)
        assert ln == 0
        seq = struct.unpack_from("<I", raw, pos)[0]
        pos += 4
        ins.append({"prev_tx": prev, "prev_index": idx, "script": [], "sequence": seq, "witness": []})
    n, pos = txser.read_compact_size(raw, pos)
    outs = []
    for _ in range(n):
        amt = struct.unpack_from("<Q", raw, pos)[0]
        pos += 8
        ln, pos = txser.read_compact_size(raw, pos)
        spk = raw[pos:pos + ln]
        pos += ln
        outs.append({"amount": amt, "script": [_Raw(spk)]})
    locktime = struct.unpack_from("<I", raw, pos)[0]
    tx = {"version": version, "segwit": False, "locktime": locktime, "ins": ins, "outs": outs}
    spent_hex = [
        ("512053a1f6e454df1aa2776a2814a721372d6258050de330b3c6d10ee8f4e0dda343", 420000000),
        ("5120147c9c57132f6e7ecddba9800bb0c4449251c92a1e60371ee77557b6620f3ea3", 462000000),
        ("76a914751e76e8199196d454941c45d1b3a323f1433bd688ac", 294000000),
        ("5120e4d810fd50586274face62b8a807eb9719cef49c04177cc6b76a9a4251d5450e", 504000000),
        ("512091b64d5324723a985170e4dc5a0f84c041804f2cd12660fa5dec09fc21783605", 630000000),
        ("00147dd65592d0ab2fe0d0257d571abf032cd9db93dc", 378000000),
        ("512075169f4001aa68f15bbed28b218df1d0a62cbbcf1188c6665110c293c907b831", 672000000),
        ("5120712447206d7a5238acc7ff53fbe94a3b64539ad291c7cdbc490b7577e4b17df5", 546000000),
        ("512077e30a5522dd9f894c3f8b8bd4c4b2cf82ca7da8a3ea6a239655c39c050ab220", 588000000),
    ]
    spent = [{"amount": a, "spk": bytes.fromhex(h)} for h, a in spent_hex]
    # input 0: hashType 3 (SINGLE); input 1: hashType 0x83; input 3: hashType 1; input 4: 0
    assert bip341(tx, 0, spent, 3).hex() == "2514a6272f85cfa0f45eb907fcb0d121b808ed37c6ea160a5a9046ed5526d555"
    assert bip341(tx, 1, spent, 0x83).hex() == "325a644af47e8a5a2591cda0ab0723978537318f10e6a63d4eed783b96a71a4d"
    assert bip341(tx, 3, spent, 1).hex() == "bf013ea93474aa67815b1b6cc441d23b64fa310911d991e713cd34c7f5d46669"
    assert bip341(tx, 4, spent, 0).hex() == "4f900a0bae3f1446fd48490c2958b5a023228f01661cda3496a11da502a7f7ef"
    assert bip341(tx, 6, spent, 2).hex() == "15f25c298eb5cdc7eb1d638dd2d45c97c4c59dcaec6679cfc16ad84f30876b85"
    assert bip341(tx, 7, spent, 0x82).hex() == "cd292de50313804dabe4685e83f923d2969577191a3e1d2882220dca88cbeb10"
    assert bip341(tx, 8, spent, 0x81).hex() == "cccb739eca6c13a8a89e6e5cd317ffe55669bbda23f2fd37b0f18755e008edd2"


class _Raw(bytes):
    """a pre-serialised script fragment (used only by the self-test)"""


_orig_script_bytes = txser.script_bytes


def _script_bytes(tokens):
    out = b""
    for t in tokens:
        if isinstance(t, _Raw):
            out += bytes(t)
        else:
            out += _orig_script_bytes([t])
    return out


txser.script_bytes = _script_bytes

_done = False


def ensure_selftest():
    global _done
    if not _done:
        txser.selftest()
        selftest()
        _done = True
