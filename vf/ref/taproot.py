"""Reference BIP341 commitments (written from the BIP's Python pseudo-code)."""
from vf.ref import ec
from vf.ref.ec import tagged_hash
from vf.ref.txser import compact_size


def leaf_hash(script, version=0xC0):
    return tagged_hash("TapLeaf", bytes([version]) + compact_size(len(script)) + script)


def branch_hash(a, b):
    if b < a:
        a, b = b, a
    return tagged_hash("TapBranch", a + b)


def tree_info(tree):
    """tree: leaf = (version, script bytes) ; node = [left, right]
    returns (root hash, [((version, script), path)]) in left-to-right order"""
    if isinstance(tree, tuple):
        return leaf_hash(tree[1], tree[0]), [(tree, b"")]
    lh, ll = tree_info(tree[0])
    rh, rl = tree_info(tree[1])
    leaves = [(lf, path + rh) for lf, path in ll] + [(lf, path + lh) for lf, path in rl]
    return branch_hash(lh, rh), leaves


def tweak_pubkey(pub, h):
    """pub: affine point (any parity); returns (parity bit, output point)"""
    P = ec.lift_x(pub[0])
    t = int.from_bytes(tagged_hash("TapTweak", ec.xonly(P) + h), "big")
    if t >= ec.N:
        raise ValueError("tweak out of range")
    Q = ec.add(P, ec.mul(t))
    if Q is None:
        raise ValueError("infinity")
    return Q[1] & 1, Q


def tweak_seckey(secret, h):
    P = ec.mul(secret)
    d = secret if P[1] % 2 == 0 else ec.N - secret
    t = int.from_bytes(tagged_hash("TapTweak", ec.xonly(P) + h), "big")
    if t >= ec.N:
        raise ValueError("tweak out of range")
    return (d + t) % ec.N


def control_block(internal, tree, leaf_index):
    root, leaves = tree_info(tree)
    (version, _script), path = leaves[leaf_index]
    parity, _ = tweak_pubkey(internal, root)
    return bytes([version | parity]) + ec.xonly(internal) + path


def verify_control_block(cb, script, program):
    """BIP341 script-path commitment check: True iff (cb, script) commits to the 32-byte program"""
    if len(cb) < 33 or len(cb) > 33 + 128 * 32 or (len(cb) - 33) % 32:
        return False
    P = ec.lift_x(int.from_bytes(cb[1:33], "big"))
    if P is None:
        return False
    k = leaf_hash(script, cb[0] & 0xFE)
    for j in range((len(cb) - 33) // 32):
        k = branch_hash(k, cb[33 + 32 * j: 65 + 32 * j])
    t = int.from_bytes(tagged_hash("TapTweak", cb[1:33] + k), "big")
    if t >= ec.N:
        return False
    Q = ec.add(P, ec.mul(t))
    if Q is None:
        return False
    return ec.xonly(Q) == program and (cb[0] & 1) == (Q[1] & 1)


def selftest():
    ec.ensure_selftest()
    # BIP341 wallet test vectors, scriptPubKey[0] (no script tree) and [1] (single leaf)
    ik = bytes.fromhex("d6889cb081036e0faefa3a35157ad71086b123b2b144b649798b494c300a961d")
    _, Q = tweak_pubkey(ec.lift_x(int.from_bytes(ik, "big")), b"")
    assert ec.xonly(Q).hex() == "53a1f6e454df1aa2776a2814a721372d6258050de330b3c6d10ee8f4e0dda343"
    ik = bytes.fromhex("187791b6f712a8ea41c8ecdd0ee77fab3e85263b37e1ec18a3651926b3a6cf27")
    script = bytes.fromhex("20d85a959b0290bf19bb89ed43c916be835475d013da4b362117393e25a48229b8ac")
    lh = leaf_hash(script)
    assert lh.hex() == "5b75adecf53548f3ec6ad7d78383bf84cc57b55a3127c72b9a2481752dd88b21"
    par, Q = tweak_pubkey(ec.lift_x(int.from_bytes(ik, "big")), lh)
    assert ec.xonly(Q).hex() == "147c9c57132f6e7ecddba9800bb0c4449251c92a1e60371ee77557b6620f3ea3"
    cb = control_block(ec.lift_x(int.from_bytes(ik, "big")), (0xC0, script), 0)
    assert cb.hex() == "c1187791b6f712a8ea41c8ecdd0ee77fab3e85263b37e1ec18a3651926b3a6cf27"
    assert verify_control_block(cb, script, ec.xonly(Q))
    # keyPathSpending[0]: internal private key -> tweaked private key
    sk = 0x6B973D88838F27366ED61C9AD6367663045CB456E28335C109E30717AE0C6BAA
    assert tweak_seckey(sk, b"") == 0x2405B971772AD26915C8DCDF10F238753A9B837E5F8E6A86FD7C0CCE5B7296D9
    # two-leaf tree, scriptPubKey[2]
    ik = bytes.fromhex("93478e9488f956df2396be2ce6c5cced75f900dfa18e7dabd2428aae78451820")
    s0 = bytes.fromhex("20b617298552a72ade070667e86ca63b8f5789a9fe8731ef91202a91c9f3459007ac")
    tree = (0xC0, s0)
    par, Q = tweak_pubkey(ec.lift_x(int.from_bytes(ik, "big")), tree_info(tree)[0])
    assert ec.xonly(Q).hex() == "e4d810fd50586274face62b8a807eb9719cef49c04177cc6b76a9a4251d5450e"
