"""Independent reference for BIP158 compact filters and BIP37 bloom filters.

Written from the specifications:
  * SipHash-2-4: Aumasson & Bernstein, "SipHash: a fast short-input PRF" (section 2 + appendix A)
  * MurmurHash3_x86_32: Appleby's public-domain description (every operation modulo 2^32)
  * BIP158: hashing into [0, N*M), Golomb-Rice coding with P = 19, M = 784931, bit stream written
    most-significant-bit first, CompactSize(N) prefix, filter hash / filter header
  * BIP37: nHashNum * 0xFBA4C795 + nTweak (uint32), vData[i >> 3] |= 1 << (i & 7), filterload layout
"""
import hashlib
import struct

M64 = 0xFFFFFFFFFFFFFFFF
M32 = 0xFFFFFFFF

BIP158_P = 19
BIP158_M = 784931
BIP37_CONSTANT = 0xFBA4C795


def sha256d(b):
    return hashlib.sha256(hashlib.sha256(b).digest()).digest()


def compact_size(n):
    if n < 0xFD:
        return bytes([n])
    if n <= 0xFFFF:
        return b"\xfd" + struct.pack("<H", n)
    if n <= 0xFFFFFFFF:
        return b"\xfe" + struct.pack("<I", n)
    return b"\xff" + struct.pack("<Q", n)


# ------------------------------------------------------------------ SipHash-2-4


def _rotl64(x, b):
    return ((x << b) | (x >> (64 - b))) & M64


def _sipround_plain(v0, v1, v2, v3):
    """SipRound exactly as drawn in the paper (figure 2.2); kept as the readable definition and
    compared with the inlined version below in selftest()."""
    v0 = (v0 + v1) & M64
    v1 = _rotl64(v1, 13)
    v1 ^= v0
    v0 = _rotl64(v0, 32)
    v2 = (v2 + v3) & M64
    v3 = _rotl64(v3, 16)
    v3 ^= v2
    v0 = (v0 + v3) & M64
    v3 = _rotl64(v3, 21)
    v3 ^= v0
    v2 = (v2 + v1) & M64
    v1 = _rotl64(v1, 17)
    v1 ^= v2
    v2 = _rotl64(v2, 32)
    return v0, v1, v2, v3


def _sipround(v0, v1, v2, v3):
    """same as _sipround_plain with the rotations written in line (speed)"""
    v0 = (v0 + v1) & M64
    v1 = (((v1 << 13) | (v1 >> 51)) & M64) ^ v0
    v0 = ((v0 << 32) | (v0 >> 32)) & M64
    v2 = (v2 + v3) & M64
    v3 = (((v3 << 16) | (v3 >> 48)) & M64) ^ v2
    v0 = (v0 + v3) & M64
    v3 = (((v3 << 21) | (v3 >> 43)) & M64) ^ v0
    v2 = (v2 + v1) & M64
    v1 = (((v1 << 17) | (v1 >> 47)) & M64) ^ v2
    v2 = ((v2 << 32) | (v2 >> 32)) & M64
    return v0, v1, v2, v3


def siphash24(key, msg):
    """64-bit SipHash-2-4 of msg under the 16-byte key (as an integer)."""
    if len(key) != 16:
        raise ValueError("key must be 16 bytes")
    k0 = int.from_bytes(key[:8], "little")
    k1 = int.from_bytes(key[8:], "little")
    v0 = k0 ^ 0x736F6D6570736575
    v1 = k1 ^ 0x646F72616E646F6D
    v2 = k0 ^ 0x6C7967656E657261
    v3 = k1 ^ 0x7465646279746573
    n = len(msg)
    full = n - n % 8
    for off in range(0, full, 8):
        m = int.from_bytes(msg[off:off + 8], "little")
        v3 ^= m
        v0, v1, v2, v3 = _sipround(v0, v1, v2, v3)
        v0, v1, v2, v3 = _sipround(v0, v1, v2, v3)
        v0 ^= m
    # last word: remaining bytes, the top byte is the length modulo 256
    m = int.from_bytes(msg[full:], "little") | ((n & 0xFF) << 56)
    v3 ^= m
    v0, v1, v2, v3 = _sipround(v0, v1, v2, v3)
    v0, v1, v2, v3 = _sipround(v0, v1, v2, v3)
    v0 ^= m
    v2 ^= 0xFF
    for _ in range(4):
        v0, v1, v2, v3 = _sipround(v0, v1, v2, v3)
    return v0 ^ v1 ^ v2 ^ v3


# ------------------------------------------------------------------ MurmurHash3 x86_32


def _rotl32(x, b):
    return ((x << b) | (x >> (32 - b))) & M32


def murmur3_32(data, seed):
    """MurmurHash3_x86_32; seed must already be a uint32."""
    if not 0 <= seed <= M32:
        raise ValueError("seed must be a uint32")
    c1, c2 = 0xCC9E2D51, 0x1B873593
    h = seed
    n = len(data)
    full = n - n % 4
    for off in range(0, full, 4):
        k = int.from_bytes(data[off:off + 4], "little")
        k = (k * c1) & M32
        k = _rotl32(k, 15)
        k = (k * c2) & M32
        h ^= k
        h = _rotl32(h, 13)
        h = (h * 5 + 0xE6546B64) & M32
    tail = data[full:]
    if tail:
        k = int.from_bytes(tail, "little")
        k = (k * c1) & M32
        k = _rotl32(k, 15)
        k = (k * c2) & M32
        h ^= k
    h ^= n & M32
    h ^= h >> 16
    h = (h * 0x85EBCA6B) & M32
    h ^= h >> 13
    h = (h * 0xC2B2AE35) & M32
    h ^= h >> 16
    return h


# ------------------------------------------------------------------ BIP158 bit stream / Golomb-Rice


class BitWriter:
    """Bits are appended most-significant-bit first; the last byte is zero padded."""

    def __init__(self):
        self.acc = 0
        self.nbits = 0

    def write(self, value, width):
        """append the low `width` bits of value, most significant first"""
        self.acc = (self.acc << width) | (value & ((1 << width) - 1))
        self.nbits += width

    def bits(self):
        return [(self.acc >> (self.nbits - 1 - i)) & 1 for i in range(self.nbits)]

    def getvalue(self):
        pad = -self.nbits % 8
        return ((self.acc << pad)).to_bytes((self.nbits + pad) // 8, "big")


class BitReader:
    def __init__(self, data):
        self.data = data
        self.pos = 0

    def read(self, width):
        v = 0
        for _ in range(width):
            byte = self.data[self.pos >> 3]  # IndexError past the end
            v = (v << 1) | ((byte >> (7 - (self.pos & 7))) & 1)
            self.pos += 1
        return v


def golomb_write(w, x, p=BIP158_P):
    q = x >> p
    # unary quotient: q ones, then a zero
    w.write((1 << (q + 1)) - 2, q + 1)
    w.write(x, p)


def golomb_read(r, p=BIP158_P):
    q = 0
    while r.read(1) == 1:
        q += 1
    return (q << p) | r.read(p)


def golomb_bits(x, p=BIP158_P):
    w = BitWriter()
    golomb_write(w, x, p)
    return w.bits()


def hash_to_range(key, element, f):
    return (siphash24(key, element) * f) >> 64


def hashed_set(key, elements):
    """sorted list of hashed values (duplicates kept, as BIP158's construction does)"""
    n = len(elements)
    f = n * BIP158_M
    return sorted(hash_to_range(key, e, f) for e in elements)


def gcs_serialize(sorted_values, p=BIP158_P):
    w = BitWriter()
    last = 0
    for v in sorted_values:
        golomb_write(w, v - last, p)
        last = v
    return compact_size(len(sorted_values)) + w.getvalue()


def gcs_build(key, elements):
    return gcs_serialize(hashed_set(key, elements))


def gcs_decode(data):
    """(N, sorted hashed values)"""
    first = data[0]
    if first < 0xFD:
        n, pos = first, 1
    elif first == 0xFD:
        n, pos = struct.unpack_from("<H", data, 1)[0], 3
    elif first == 0xFE:
        n, pos = struct.unpack_from("<I", data, 1)[0], 5
    else:
        n, pos = struct.unpack_from("<Q", data, 1)[0], 9
    r = BitReader(data[pos:])
    out = []
    cur = 0
    for _ in range(n):
        cur += golomb_read(r)
        out.append(cur)
    return n, out


def gcs_match(key, data, element):
    n, values = gcs_decode(data)
    return hash_to_range(key, element, n * BIP158_M) in set(values)


def filter_header(filter_hash, prev_header):
    return sha256d(filter_hash + prev_header)


def header_chain(prev_header, filter_hashes):
    """all headers following prev_header"""
    out = []
    cur = prev_header
    for fh in filter_hashes:
        cur = sha256d(fh + cur)
        out.append(cur)
    return out


# ------------------------------------------------------------------ BIP37


def bloom_positions(item, size_bytes, n_funcs, tweak):
    nbits = size_bytes * 8
    return [
        murmur3_32(item, (i * BIP37_CONSTANT + tweak) & M32) % nbits for i in range(n_funcs)
    ]


def bloom_bytes(size_bytes, positions):
    data = bytearray(size_bytes)
    for p in positions:
        data[p >> 3] |= 1 << (p & 7)
    return bytes(data)


def bloom_contains(data, n_funcs, tweak, item):
    return all(
        data[p >> 3] & (1 << (p & 7)) for p in bloom_positions(item, len(data), n_funcs, tweak)
    )


def filterload_payload(data, n_funcs, tweak, flags):
    return (compact_size(len(data)) + data + struct.pack("<I", n_funcs)
            + struct.pack("<I", tweak) + bytes([flags]))


# ------------------------------------------------------------------ self-test

# SipHash-2-4 reference vectors (key 00..0f, message = first i bytes of 00 01 02 ...), as
# distributed with the reference implementation (output bytes, i.e. little-endian).
_SIP_VECTORS = """
310e0edd47db6f72 fd67dc93c539f874 5a4fa9d909806c0d 2d7efbd796666785 b7877127e09427cf
8da699cd64557618 cee3fe586e46c9cb 37d1018bf50002ab 6224939a79f5f593 b0e4a90bdf82009e
f3b9dd94c5bb5d7a a7ad6b22462fb3f4 fbe50e86bc8f1e75 903d84c02756ea14 eef27a8e90ca23f7
e545be4961ca29a1 db9bc2577fcc2a3f 9447be2cf5e99a69 9cd38d96f0b3c14b bd6179a71dc96dbb
98eea21af25cd6be c7673b2eb0cbf2d0 883ea3e395675393 c8ce5ccd8c030ca8 94af49f6c650adb8
eab8858ade92e1bc f315bb5bb835d817 adcf6b0763612e2f a5c91da7acaa4dde 716595876650a2a6
28ef495c53a387ad 42c341d8fa92d832 ce7cf2722f512771 e37859f94623f3a7 381205bb1ab0e012
ae97a10fd434e015 b4a31508beff4d31 81396229f0907902 4d0cf49ee5d4dcca 5c73336a76d8bf9a
d0a704536ba93e0e 925958fcd6420cad a915c29bc8067318 952b79f3bc0aa6d4 f21df2e41d4535f9
87577519048f53a9 10a56cf5dfcd9adb eb75095ccd986cd0 51a9cb9ecba312e6 96afadfc2ce666c7
72fe52975a4364ee 5a1645b276d592a1 b274cb8ebf87870a 6f9bb4203de7b381 eaecb2a30b22a87f
9924a43cc1315724 bd838d3aafbf8db7 0b1a2a3265d51aea 135079a3231ce660 932b2846e4d70666
e1915f5cb1eca46c f325965ca16d629f 575ff28e60381be5 724506eb4c328a95
""".split()

# (seed, data hex, hash): Bitcoin Core hash_tests.cpp (murmurhash3) and the widely circulated
# SMHasher-verified vector list.
_MURMUR_VECTORS = [
    (0x00000000, "", 0x00000000),
    (0xFBA4C795, "", 0x6A396F08),
    (0xFFFFFFFF, "", 0x81F16F39),
    (0x00000001, "", 0x514E28B7),
    (0x00000000, "00", 0x514E28B7),
    (0xFBA4C795, "00", 0xEA3F0B17),
    (0x00000000, "ff", 0xFD6CF10D),
    (0x00000000, "0011", 0x16C6B7AB),
    (0x00000000, "001122", 0x8EB51C3D),
    (0x00000000, "00112233", 0xB4471BF8),
    (0x00000000, "0011223344", 0xE2301FA8),
    (0x00000000, "001122334455", 0xFC2E4A15),
    (0x00000000, "00112233445566", 0xB074502C),
    (0x00000000, "0011223344556677", 0x8034D2A0),
    (0x00000000, "001122334455667788", 0xB4698DEF),
    (0x00000000, "ffffffff", 0x76293B50),
    (0x00000000, "21436587", 0xF55B516B),
    (0x5082EDEE, "21436587", 0x2362F9DE),
    (0x00000000, "214365", 0x7E4A8634),
    (0x00000000, "2143", 0xA0F7B07A),
    (0x00000000, "21", 0x72661CF4),
    (0x00000000, "00000000", 0x2362F9DE),
    (0x00000000, "000000", 0x85F0B427),
    (0x00000000, "0000", 0x30F4C306),
]

# BIP158 test vectors (testnet): (block hash, [elements], previous basic header, filter, header)
_BIP158_VECTORS = [
    ("000000000933ea01ad0ee984209779baaec3ced90fa3f408719526f8d77f4943",
     ["4104678afdb0fe5548271967f1a67130b7105cd6a828e03909a67962e0ea1f61deb649f6bc3f4cef38c4f355"
      "04e51ec112de5c384df7ba0b8d578a4c702b6bf11d5fac"],
     "0000000000000000000000000000000000000000000000000000000000000000",
     "019dfca8",
     "21584579b7eb08997773e5aeff3a7f932700042d0ed2a6129012b7d7ae81b750"),
    ("000000006c02c8ea6e4ff69651f7fcde348fb9d557a06e6957b65552002a7820",
     ["21038a7f6ef1c8ca0c588aa53fa860128077c9e6c11e6830f4d7ee4e763a56b7718fac"],
     "d7bdac13a59d745b1add0d2ce852f1a0442e8945fc1bf3848d3cbffd88c24fe1",
     "0174a170",
     "186afd11ef2b5e7e3504f2e8cbf8df28a1fd251fe53d60dff8b1467d1b386cf0"),
    ("000000008b896e272758da5297bcd98fdc6d97c9b765ecec401e286dc1fdbe10",
     ["2103f6d9ff4c12959445ca5549c811683bf9c88e637b222dd2e0311154c4c85cf423ac"],
     "186afd11ef2b5e7e3504f2e8cbf8df28a1fd251fe53d60dff8b1467d1b386cf0",
     "016cf7a0",
     "8d63aadf5ab7257cb6d2316a57b16f517bff1c6388f124ec4c04af1212729d2a"),
    ("0000000018b07dca1b28b4b5a119f6d6e71698ce1ed96f143f54179ce177a19c",
     ["5221033423007d8f263819a2e42becaaf5b06f34cb09919e06304349d950668209eaed21021d69e2b68c3960"
      "903b702af7829fadcd80bd89b158150c85c4a75b2c8cb9c39452ae",
      "52210279be667ef9dcbbac55a06295ce870b07029bfcdb2dce28d959f2815b16f8179821021d69e2b68c3960"
      "903b702af7829fadcd80bd89b158150c85c4a75b2c8cb9c39452ae",
      "522102a7ae1e0971fc1689bd66d2a7296da3a1662fd21a53c9e38979e0f090a375c12d21022adb62335f41eb"
      "4e27056ac37d462cda5ad783fa8e0e526ed79c752475db285d52ae",
      "52210279be667ef9dcbbac55a06295ce870b07029bfcdb2dce28d959f2815b16f8179821022adb62335f41eb"
      "4e27056ac37d462cda5ad783fa8e0e526ed79c752475db285d52ae",
      "512103b9d1d0e2b4355ec3cdef7c11a5c0beff9e8b8d8372ab4b4e0aaf30e80173001951ae",
      "76a9149144761ebaccd5b4bbdc2a35453585b5637b2f8588ac",
      "522103f1848b40621c5d48471d9784c8174ca060555891ace6d2b03c58eece946b1a9121020ee5d32b54d429"
      "c152fdc7b1db84f2074b0564d35400d89d11870f9273ec140c52ae",
      "76a914f4fa1cc7de742d135ea82c17adf0bb9cf5f4fb8388ac",
      "2102971dd6034ed0cf52450b608d196c07d6345184fcb14deb277a6b82d526a6163dac",
      "76a91445db0b779c0b9fa207f12a8218c94fc77aff504588ac"],
     "ed47705334f4643892ca46396eb3f4196a5e30880589e4009ef38eae895d4a13",
     "0afbc2920af1b027f31f87b592276eb4c32094bb4d3697021b4c6380",
     "b6d98692cec5145f67585f3434ec3c2b3030182e1cb3ec58b855c5c164dfaaa3"),
    ("000000006f27ddfe1dd680044a34548f41bed47eba9e6f0b310da21423bc5f33",
     ["002027a5000c7917f785d8fc6e5a55adfca8717ecb973ebb7743849ff956d896a7ed",
      "76a914f2c25ac3d59f3d674b1d1d0a25c27339aaac0ba688ac",
      "001446c29eabe8208a33aa1023c741fa79aa92e881ff"],
     "a4a4d6c6034da8aa06f01fe71f1fffbd79e032006b07f6c7a2c60a66aa310c01",
     "0385acb4f0fe889ef0",
     "3588f34fbbc11640f9ed40b2a66a4e096215d50389691309c1dac74d4268aa81"),
]


def selftest():
    key = bytes(range(16))
    msg = bytes(range(64))
    state = (1, 2, 3, 4)
    for i in range(40):
        assert _sipround(*state) == _sipround_plain(*state)
        state = _sipround_plain(*state)
        state = (state[0] ^ (i * 0x9E3779B97F4A7C15 & M64), state[1], state[2], state[3] ^ M64)
    assert len(_SIP_VECTORS) == 64
    for i, want in enumerate(_SIP_VECTORS):
        assert siphash24(key, msg[:i]).to_bytes(8, "little").hex() == want, ("siphash", i)
    # the value printed in the paper (appendix A): 15-byte message
    assert siphash24(key, msg[:15]) == 0xA129CA6149BE45E5
    # values used by Bitcoin Core's hash_tests.cpp
    assert siphash24(bytes(16), b"") == 0x1E924B9D737700D7
    assert siphash24(bytes(16), b"Hello world") == 0xC9E8A3021F3822D9
    assert siphash24(key, b"") == 0x726FDB47DD0E0E31
    assert siphash24(key, b"\x00") == 0x74F839C593DC67FD

    for seed, hx, want in _MURMUR_VECTORS:
        assert murmur3_32(bytes.fromhex(hx), seed) == want, ("murmur3", seed, hx)

    # Golomb-Rice examples (quotient in unary, remainder in P bits)
    assert golomb_bits(0, 2) == [0, 0, 0]
    assert golomb_bits(5, 2) == [1, 0, 0, 1]
    assert golomb_bits(9, 2) == [1, 1, 0, 0, 1]
    for x in (0, 1, 2**19 - 1, 2**19, 2**19 + 1, 2**26 - 1, 123456789):
        w = BitWriter()
        golomb_write(w, x)
        assert golomb_read(BitReader(w.getvalue() + b"\x00")) == x
    w = BitWriter()
    golomb_write(w, 257, 8)
    assert w.getvalue() == b"\x80\x40"

    assert BIP158_M == 784931 and BIP158_P == 19
    for block_hash, elements, prev, flt, header in _BIP158_VECTORS:
        k = bytes.fromhex(block_hash)[::-1][:16]
        els = [bytes.fromhex(e) for e in elements]
        got = gcs_build(k, els)
        assert got.hex() == flt, ("bip158 filter", block_hash)
        n, values = gcs_decode(got)
        assert n == len(els) and values == hashed_set(k, els)
        assert all(gcs_match(k, got, e) for e in els)
        h = filter_header(sha256d(got), bytes.fromhex(prev)[::-1])
        assert h[::-1].hex() == header, ("bip158 header", block_hash)
    assert gcs_build(bytes(16), []) == b"\x00"
    # blocks 2 and 3 are consecutive: the chain helper reproduces both headers
    v2, v3 = _BIP158_VECTORS[1], _BIP158_VECTORS[2]
    chain = header_chain(bytes.fromhex(v2[2])[::-1],
                         [sha256d(bytes.fromhex(v2[3])), sha256d(bytes.fromhex(v3[3]))])
    assert [c[::-1].hex() for c in chain] == [v2[4], v3[4]]

    # BIP37 example used in "Programming Bitcoin" (size 10, 5 functions, tweak 99)
    pos = bloom_positions(b"Hello World", 10, 5, 99)
    data = bloom_bytes(10, pos)
    assert data.hex() == "0000000a080000000140"
    pos += bloom_positions(b"Goodbye!", 10, 5, 99)
    data = bloom_bytes(10, pos)
    assert data.hex() == "4000600a080000010940"
    assert bloom_contains(data, 5, 99, b"Hello World") and bloom_contains(data, 5, 99, b"Goodbye!")
    assert filterload_payload(data, 5, 99, 1).hex() == "0a4000600a080000010940050000006300000001"


_done = False


def ensure_selftest():
    global _done
    if not _done:
        selftest()
        _done = True
