"""Independent Bech32 / Bech32m / segwit-address reference, written from BIP173 and BIP350.

Layering (deliberately different from buidl's):
  * polynomial checksum over GF(32) computed by explicit polynomial division (not the BIP's
    unrolled bit trick), generator g(x) = x^6 + 29x^5 + 22x^4 + 20x^3 + 21x^2 + 29x + 18 over
    GF(32) = GF(2)[a]/(a^5 + a^3 + 1)  (BIP173 "Checksum design");
  * ``encode(hrp, data5, spec)`` / ``decode(text)`` -> (hrp, data5, spec) for the container format;
  * ``segwit_encode(hrp, version, program)`` / ``segwit_decode(text)`` with every rule of
    BIP173/BIP350 (version range, program length, v0 length 20/32, padding, case, constants);
  * ``segwit_decode(text, strict_v0_len=False)`` relaxes only the v0 length rule: the property under
    test quantifies over all (version, length) pairs.
"""

CHARSET = "qpzry9x8gf2tvdw0s3jn54khce6mua7l"
BECH32 = "bech32"
BECH32M = "bech32m"
CONST = {BECH32: 1, BECH32M: 0x2BC830A3}

# ---------------------------------------------------------------- GF(32) arithmetic


def _gf_mul(a, b):
    """multiplication in GF(2)[x]/(x^5 + x^3 + 1)"""
    r = 0
    for i in range(5):
        if (b >> i) & 1:
            r ^= a << i
    for i in range(8, 4, -1):
        if (r >> i) & 1:
            r ^= 0b101001 << (i - 5)
    return r


_GEN = [1, 29, 22, 20, 21, 29, 18]  # x^6 .. x^0
# _TOP[t] = t * (g(x) - x^6) as six coefficients: what is added when the x^6 term t is reduced
_TOP = [[_gf_mul(t, _GEN[i + 1]) for i in range(6)] for t in range(32)]


def _poly_mod(values):
    """Residue modulo g(x) of the polynomial whose coefficients are 1, values[0], values[1], ...

    BIP173: the values are the coefficients of a polynomial with an implicit leading term 1
    (the state starts at 1); the checksum is chosen so that the residue equals the constant.
    """
    r0, r1, r2, r3, r4, r5 = 0, 0, 0, 0, 0, 1  # the initial '1'
    for v in values:
        # rem(x) * x + v, reduced by g
        t = _TOP[r0]
        r0, r1, r2, r3, r4, r5 = r1 ^ t[0], r2 ^ t[1], r3 ^ t[2], r4 ^ t[3], r5 ^ t[4], v ^ t[5]
    return (r0 << 25) | (r1 << 20) | (r2 << 15) | (r3 << 10) | (r4 << 5) | r5


def _hrp_expand(hrp):
    return [ord(c) >> 5 for c in hrp] + [0] + [ord(c) & 31 for c in hrp]


def checksum(hrp, data5, spec):
    values = _hrp_expand(hrp) + list(data5)
    # residue of values * x^6, then xor with the constant gives the six symbols to append
    r = _poly_mod(values + [0] * 6) ^ CONST[spec]
    return [(r >> (5 * (5 - i))) & 31 for i in range(6)]


def encode(hrp, data5, spec):
    body = list(data5) + checksum(hrp, data5, spec)
    return hrp + "1" + "".join(CHARSET[d] for d in body)


def decode(text):
    """-> (hrp, data5 without checksum, spec) or None (BIP173 'Bech32' section rules)"""
    if any(ord(c) < 33 or ord(c) > 126 for c in text):
        return None
    if text.lower() != text and text.upper() != text:
        return None
    text = text.lower()
    pos = text.rfind("1")
    if pos < 1 or pos + 7 > len(text) or len(text) > 90:
        return None
    hrp, rest = text[:pos], text[pos + 1:]
    data = []
    for c in rest:
        i = CHARSET.find(c)
        if i < 0:
            return None
        data.append(i)
    r = _poly_mod(_hrp_expand(hrp) + data)
    for spec, const in CONST.items():
        if r == const:
            return hrp, data[:-6], spec
    return None


# ------------------------------------------------------------------ bit regrouping


def to5(data8):
    """bytes -> 5-bit groups, big-endian bit order, zero padded (BIP173)"""
    bits = "".join(format(b, "08b") for b in data8)
    if len(bits) % 5:
        bits += "0" * (5 - len(bits) % 5)
    return [int(bits[i:i + 5], 2) for i in range(0, len(bits), 5)]


def to8(data5):
    """5-bit groups -> bytes or None (padding of 5 or more bits, or non-zero padding)"""
    bits = "".join(format(d, "05b") for d in data5)
    cut = len(bits) - len(bits) % 8
    pad = bits[cut:]
    if len(pad) >= 5 or "1" in pad:
        return None
    return bytes(int(bits[i:i + 8], 2) for i in range(0, cut, 8))


# ---------------------------------------------------------------- segwit addresses

HRP = {"mainnet": "bc", "testnet": "tb", "signet": "tb", "regtest": "bcrt"}


def spec_for_version(version):
    return BECH32 if version == 0 else BECH32M


def segwit_encode(hrp, version, program, spec=None):
    """spec=None: the constant mandated by BIP350; otherwise force one (to build invalid strings)"""
    if spec is None:
        spec = spec_for_version(version)
    return encode(hrp, [version] + to5(program), spec)


def segwit_decode(text, hrps=("bc", "tb", "bcrt"), strict_v0_len=True):
    """-> (hrp, version, program) or None"""
    d = decode(text)
    if d is None:
        return None
    hrp, data, spec = d
    if hrp not in hrps or len(data) < 1:
        return None
    version = data[0]
    if version > 16:
        return None
    program = to8(data[1:])
    if program is None or not 2 <= len(program) <= 40:
        return None
    if version == 0 and strict_v0_len and len(program) not in (20, 32):
        return None
    if spec != spec_for_version(version):
        return None
    return hrp, version, program


def script_pubkey(version, program):
    """witness program scriptPubKey (BIP141): OP_n <program>"""
    return bytes([0 if version == 0 else 0x50 + version, len(program)]) + bytes(program)


# ------------------------------------------------- bc32 (BCR-2020-004), CBOR, UR v1
# bc32 = Bech32 without a human readable part: the checksum is computed over the single value 0
# followed by the data, and the final constant is 0x3fffffff instead of 1.

BC32_CONST = 0x3FFFFFFF


def bc32_encode(data8):
    d5 = to5(data8)
    r = _poly_mod([0] + d5 + [0] * 6) ^ BC32_CONST
    chk = [(r >> (5 * (5 - i))) & 31 for i in range(6)]
    return "".join(CHARSET[d] for d in d5 + chk)


def bc32_decode(text):
    """bytes or None"""
    if text.lower() != text and text.upper() != text:
        return None
    vals = []
    for c in text.lower():
        i = CHARSET.find(c)
        if i < 0:
            return None
        vals.append(i)
    if len(vals) < 6 or _poly_mod([0] + vals) != BC32_CONST:
        return None
    return to8(vals[:-6])


def cbor_bytes(data):
    """RFC 8949 section 3.1, major type 2 (byte string), preferred (shortest) length encoding"""
    n = len(data)
    if n <= 23:
        head = bytes([0x40 | n])
    elif n < 1 << 8:
        head = bytes([0x58, n])
    elif n < 1 << 16:
        head = bytes([0x59]) + n.to_bytes(2, "big")
    elif n < 1 << 32:
        head = bytes([0x5A]) + n.to_bytes(4, "big")
    else:
        head = bytes([0x5B]) + n.to_bytes(8, "big")
    return head + bytes(data)


def cbor_bytes_decode(blob):
    """inverse of cbor_bytes: (data, rest) or None"""
    if not blob or blob[0] >> 5 != 2:
        return None
    ai = blob[0] & 31
    if ai <= 23:
        n, off = ai, 1
    elif ai in (24, 25, 26, 27):
        w = 1 << (ai - 24)
        if len(blob) < 1 + w:
            return None
        n, off = int.from_bytes(blob[1:1 + w], "big"), 1 + w
    else:
        return None
    if len(blob) < off + n:
        return None
    return blob[off:off + n], blob[off + n:]


def ur_v1(payload):
    """(bc32 of the CBOR byte string, bc32 of its SHA-256) as used by UR version 1 'ur:bytes/...'"""
    import hashlib

    c = cbor_bytes(payload)
    return bc32_encode(c), bc32_encode(hashlib.sha256(c).digest())


# ----------------------------------------------------------------------- self-test

_VALID_BECH32 = [
    "A12UEL5L",
    "a12uel5l",
    "an83characterlonghumanreadablepartthatcontainsthenumber1andtheexcludedcharactersbio1tt5tgs",
    "abcdef1qpzry9x8gf2tvdw0s3jn54khce6mua7lmqqqxw",
    "11qqqqqqqqqqqqqqqqqqqqqqqqqqqqqqqqqqqqqqqqqqqqqqqqqqqqqqqqqqqqqqqqqqqqqqqqqqqqqqqqqqc8247j",
    "split1checkupstagehandshakeupstreamerranterredcaperred2y9e3w",
    "?1ezyfcl",
]
_VALID_BECH32M = [
    "A1LQFN3A",
    "a1lqfn3a",
    "an83characterlonghumanreadablepartthatcontainsthetheexcludedcharactersbioandnumber11sg7hg6",
    "abcdef1l7aum6echk45nj3s0wdvt2fg8x9yrzpqzd3ryx",
    "11llllllllllllllllllllllllllllllllllllllllllllllllllllllllllllllllllllllllllllllllllludsr8",
    "split1checkupstagehandshakeupstreamerranterredcaperredlc445v",
    "?1v759aa",
]
_INVALID_CONTAINER = [
    "\x201nwldj5",  # HRP character out of range
    "\x7f1axkwrx",
    "an84characterslonghumanreadablepartthatcontainsthenumber1andtheexcludedcharactersbio1569pvx",
    "pzry9x0s0muk",  # no separator
    "1pzry9x0s0muk",  # empty HRP
    "x1b4n0q5v",  # invalid data character
    "li1dgmt3",  # too short checksum
    "A1G7SGD8",  # checksum calculated with uppercase form of HRP
    "10a06t8",  # empty HRP
    "1qzzfhee",  # empty HRP
]
_VALID_ADDR = [
    ("BC1QW508D6QEJXTDG4Y5R3ZARVARY0C5XW7KV8F3T4", "0014751e76e8199196d454941c45d1b3a323f1433bd6"),
    ("tb1qrp33g0q5c5txsp9arysrx4k6zdkfs4nce4xj0gdcccefvpysxf3q0sl5k7",
     "00201863143c14c5166804bd19203356da136c985678cd4d27a1b8c6329604903262"),
    ("bc1pw508d6qejxtdg4y5r3zarvary0c5xw7kw508d6qejxtdg4y5r3zarvary0c5xw7kt5nd6y",
     "5128751e76e8199196d454941c45d1b3a323f1433bd6751e76e8199196d454941c45d1b3a323f1433bd6"),
    ("BC1SW50QGDZ25J", "6002751e"),
    ("bc1zw508d6qejxtdg4y5r3zarvaryvaxxpcs", "5210751e76e8199196d454941c45d1b3a323"),
    ("tb1qqqqqp399et2xygdj5xreqhjjvcmzhxw4aywxecjdzew6hylgvsesrxh6hy",
     "0020000000c4a5cad46221b2a187905e5266362b99d5e91c6ce24d165dab93e86433"),
    ("tb1pqqqqp399et2xygdj5xreqhjjvcmzhxw4aywxecjdzew6hylgvsesf3hn0c",
     "5120000000c4a5cad46221b2a187905e5266362b99d5e91c6ce24d165dab93e86433"),
    ("bc1p0xlxvlhemja6c4dqv22uapctqupfhlxm9h8z3k2e72q4k9hcz7vqzk5jj0",
     "512079be667ef9dcbbac55a06295ce870b07029bfcdb2dce28d959f2815b16f81798"),
    # regtest strings from the repository's own test-suite
    ("bcrt1qrp33g0q5c5txsp9arysrx4k6zdkfs4nce4xj0gdcccefvpysxf3qzf4jry",
     "00201863143c14c5166804bd19203356da136c985678cd4d27a1b8c6329604903262"),
    ("bcrt1p0xlxvlhemja6c4dqv22uapctqupfhlxm9h8z3k2e72q4k9hcz7vqc8gma6",
     "512079be667ef9dcbbac55a06295ce870b07029bfcdb2dce28d959f2815b16f81798"),
    ("bc1qqqqqqqqqqqqqqqqqqqqqqqqqqqqqqqqq9e75rs", "00140000000000000000000000000000000000000000"),
]
_INVALID_ADDR = [
    "tc1qw508d6qejxtdg4y5r3zarvary0c5xw7kg3g4ty",  # invalid HRP
    "bc1qw508d6qejxtdg4y5r3zarvary0c5xw7kv8f3t5",  # invalid checksum
    "BC13W508D6QEJXTDG4Y5R3ZARVARY0C5XW7KN40WF2",  # invalid witness version
    "bc1rw5uspcuh",  # invalid program length
    "bc10w508d6qejxtdg4y5r3zarvary0c5xw7kw508d6qejxtdg4y5r3zarvary0c5xw7kw5rljs90",
    "BC1QR508D6QEJXTDG4Y5R3ZARVARYV98GJ9P",  # invalid program length for v0
    "tb1qrp33g0q5c5txsp9arysrx4k6zdkfs4nce4xj0gdcccefvpysxf3q0sL5k7",  # mixed case
    "bc1zw508d6qejxtdg4y5r3zarvaryvqyzf3du",  # zero padding of more than 4 bits
    "tb1qrp33g0q5c5txsp9arysrx4k6zdkfs4nce4xj0gdcccefvpysxf3pjxtptv",  # non-zero padding
    "bc1gmk9yu",  # empty data section
    # BIP350
    "bc1p0xlxvlhemja6c4dqv22uapctqupfhlxm9h8z3k2e72q4k9hcz7vqh2y7hd",  # bech32 instead of bech32m
    "tb1z0xlxvlhemja6c4dqv22uapctqupfhlxm9h8z3k2e72q4k9hcz7vqglt7rf",
    "BC1S0XLXVLHEMJA6C4DQV22UAPCTQUPFHLXM9H8Z3K2E72Q4K9HCZ7VQ54WELL",
    "bc1qw508d6qejxtdg4y5r3zarvary0c5xw7kemeawh",  # bech32m instead of bech32
    "tb1q0xlxvlhemja6c4dqv22uapctqupfhlxm9h8z3k2e72q4k9hcz7vq24jc47",
    "bc1p38j9r5y49hruaue7wxjce0updqjuyyx0kh56v8s25huc6995vvpql3jow4",  # invalid character
    "BC130XLXVLHEMJA6C4DQV22UAPCTQUPFHLXM9H8Z3K2E72Q4K9HCZ7VQ7ZWS8R",  # invalid witness version
    "bc1pw5dgrnzv",  # invalid program length (1 byte)
    "bc1p0xlxvlhemja6c4dqv22uapctqupfhlxm9h8z3k2e72q4k9hcz7v8n0nx0muaewav253zgeav",  # 41 bytes
    "tb1p0xlxvlhemja6c4dqv22uapctqupfhlxm9h8z3k2e72q4k9hcz7vq47Zagq",  # mixed case
    "bc1p0xlxvlhemja6c4dqv22uapctqupfhlxm9h8z3k2e72q4k9hcz7v07qwwzcrf",  # zero padding > 4 bits
    "tb1p0xlxvlhemja6c4dqv22uapctqupfhlxm9h8z3k2e72q4k9hcz7vpggkg4j",  # non-zero padding
]


def _bip_polymod(values):
    """the formulation printed in BIP173, used only to cross-check the polynomial division"""
    gen = [0x3B6A57B2, 0x26508E6D, 0x1EA119FA, 0x3D4233DD, 0x2A1462B3]
    chk = 1
    for v in values:
        b = chk >> 25
        chk = ((chk & 0x1FFFFFF) << 5) ^ v
        for i in range(5):
            if (b >> i) & 1:
                chk ^= gen[i]
    return chk


def selftest():
    import hashlib

    # GF(32) sanity: a * a^-1 == 1 for every non-zero a, distributivity on a sample
    for a in range(1, 32):
        assert any(_gf_mul(a, b) == 1 for b in range(1, 32)), a
    for a in range(32):
        for b in range(32):
            assert _gf_mul(a, b) == _gf_mul(b, a)
            assert _gf_mul(a, b ^ 7) == _gf_mul(a, b) ^ _gf_mul(a, 7)
    # polynomial division == the BIP's unrolled recurrence, on pseudo-random inputs
    for i in range(200):
        h = hashlib.sha256(b"bech32-selftest%d" % i).digest()
        vals = [x & 31 for x in h[: 1 + i % 32]] * (1 + i % 3)
        assert _poly_mod(vals) == _bip_polymod(vals), (i, vals)
    for s in _VALID_BECH32:
        d = decode(s)
        assert d is not None and d[2] == BECH32, s
        assert encode(d[0], d[1], BECH32) == s.lower(), s
        # the last character changed -> invalid
        bad = s[:-1] + ("q" if s[-1].lower() != "q" else "p")
        assert decode(bad) is None, bad
    for s in _VALID_BECH32M:
        d = decode(s)
        assert d is not None and d[2] == BECH32M, s
        assert encode(d[0], d[1], BECH32M) == s.lower(), s
    for s in _INVALID_CONTAINER:
        assert decode(s) is None, s
    for addr, spk in _VALID_ADDR:
        d = segwit_decode(addr)
        assert d is not None, addr
        hrp, ver, prog = d
        assert script_pubkey(ver, prog).hex() == spk, addr
        assert segwit_encode(hrp, ver, prog) == addr.lower(), addr
    for addr in _INVALID_ADDR:
        assert segwit_decode(addr) is None, addr
    for n in range(0, 70):
        b = (hashlib.sha512(bytes([n])).digest() + bytes(8))[:n]
        assert len(b) == n and to8(to5(b)) == b
    assert to5(b"\x00\x01\x02") == [0, 0, 0, 16, 4]
    assert to8([31]) is None and to8([0, 1]) is None and to8([0, 0]) == b"\x00"
    # bc32: BCR-2020-004 example and the vector pinned by the repository's test-suite
    assert bc32_encode(b"Hello world") == "fpjkcmr0ypmk7unvvsh4ra4j"
    assert bc32_encode(b"hello world") == "dpjkcmr0ypmk7unvvsrvvse8"
    assert bc32_decode("fpjkcmr0ypmk7unvvsh4ra4j") == b"Hello world"
    assert bc32_decode("FPJKCMR0YPMK7UNVVSH4RA4J") == b"Hello world"
    assert bc32_decode("fpjkcmr0ypmk7unvvsh4ra4q") is None
    assert bc32_decode("Fpjkcmr0ypmk7unvvsh4ra4j") is None
    # UR v1 vectors (specter-desktop, reproduced in the repository's test-suite)
    assert ur_v1(b"foo") == ("gdnx7mc0p7099",
                             "j7snj9l0tttmp4c0d9d9mdz0frkac8s6fz4cn8erca3nxz0cnjuq7fv7lv")
    assert ur_v1(bytes.fromhex("69a69a")) == (
        "gd56dxsyew2w5", "ysypyck5etagxt08hzn6vcnwam3lgupp0uhcs7n8pg0wmen32p3qate5eg")
    # CBOR byte-string heads (RFC 8949 appendix A: h'' = 0x40, h'01020304' = 0x4401020304)
    assert cbor_bytes(b"") == b"\x40" and cbor_bytes(b"\x01\x02\x03\x04").hex() == "4401020304"
    for n, head in ((23, "57"), (24, "5818"), (255, "58ff"), (256, "590100"), (65535, "59ffff"),
                    (65536, "5a00010000")):
        blob = cbor_bytes(bytes(n))
        assert blob[: len(head) // 2].hex() == head and len(blob) == n + len(head) // 2, n
        assert cbor_bytes_decode(blob + b"x") == (bytes(n), b"x")
    assert cbor_bytes_decode(b"\x60") is None and cbor_bytes_decode(b"\x58") is None


_done = False


def ensure_selftest():
    global _done
    if not _done:
        selftest()
        _done = True
