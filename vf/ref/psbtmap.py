"""Independent byte-level reader/editor for PSBT v0 (BIP174): a PSBT is the magic followed by a
global key-value map, one map per input and one per output of the unsigned transaction."""
import struct

from vf.ref.txser import compact_size, read_compact_size

MAGIC = b"psbt\xff"


def read_map(b, pos):
    """returns (list of (key, value), new position)"""
    out = []
    while True:
        klen, pos = read_compact_size(b, pos)
        if klen == 0:
            return out, pos
        key = b[pos:pos + klen]
        pos += klen
        vlen, pos = read_compact_size(b, pos)
        val = b[pos:pos + vlen]
        if len(val) != vlen:
            raise ValueError("truncated value")
        pos += vlen
        out.append((key, val))


def write_map(kvs):
    out = b""
    for k, v in kvs:
        out += compact_size(len(k)) + k + compact_size(len(v)) + v
    return out + b"\x00"


def read_tx_legacy(raw):
    """minimal reader of a non-witness transaction: returns dict with scriptSigs and counts;
    raises ValueError when the bytes carry the BIP144 marker or trailing data"""
    pos = 4
    version = struct.unpack_from("<I", raw, 0)[0]
    n_in, pos = read_compact_size(raw, pos)
    if n_in == 0:
        raise ValueError("witness marker (or no inputs) in the unsigned transaction")
    ins = []
    for _ in range(n_in):
        prev = raw[pos:pos + 32]
        idx = struct.unpack_from("<I", raw, pos + 32)[0]
        pos += 36
        ln, pos = read_compact_size(raw, pos)
        script = raw[pos:pos + ln]
        pos += ln
        seq = struct.unpack_from("<I", raw, pos)[0]
        pos += 4
        ins.append({"prev": prev, "index": idx, "script_sig": script, "sequence": seq})
    n_out, pos = read_compact_size(raw, pos)
    outs = []
    for _ in range(n_out):
        amount = struct.unpack_from("<Q", raw, pos)[0]
        pos += 8
        ln, pos = read_compact_size(raw, pos)
        outs.append({"amount": amount, "spk": raw[pos:pos + ln]})
        pos += ln
    locktime = struct.unpack_from("<I", raw, pos)[0]
    pos += 4
    if pos != len(raw):
        raise ValueError("trailing bytes after the unsigned transaction")
    return {"version": version, "ins": ins, "outs": outs, "locktime": locktime}


def write_tx_legacy(tx):
    out = struct.pack("<I", tx["version"]) + compact_size(len(tx["ins"]))
    for i in tx["ins"]:
        out += i["prev"] + struct.pack("<I", i["index"]) + compact_size(len(i["script_sig"])) + i["script_sig"]
        out += struct.pack("<I", i["sequence"])
    out += compact_size(len(tx["outs"]))
    for o in tx["outs"]:
        out += struct.pack("<Q", o["amount"]) + compact_size(len(o["spk"])) + o["spk"]
    return out + struct.pack("<I", tx["locktime"])


def set_tx(p, tx):
    """replace the unsigned transaction of a parsed PSBT"""
    p["global"] = [(k, write_tx_legacy(tx) if k == b"\x00" else v) for k, v in p["global"]]
    p["tx"] = tx


def parse(b):
    """returns {"global": kvs, "inputs": [kvs], "outputs": [kvs], "tx": dict}"""
    if b[:5] != MAGIC:
        raise ValueError("magic")
    glob, pos = read_map(b, 5)
    txs = [v for k, v in glob if k == b"\x00"]
    if len(txs) != 1:
        raise ValueError("unsigned tx")
    tx = read_tx_legacy(txs[0])
    ins = []
    for _ in tx["ins"]:
        m, pos = read_map(b, pos)
        ins.append(m)
    outs = []
    for _ in tx["outs"]:
        m, pos = read_map(b, pos)
        outs.append(m)
    if pos != len(b):
        raise ValueError("trailing bytes")
    return {"global": glob, "inputs": ins, "outputs": outs, "tx": tx}


def serialize(p):
    return MAGIC + write_map(p["global"]) + b"".join(write_map(m) for m in p["inputs"]) + b"".join(
        write_map(m) for m in p["outputs"])


def selftest():
    # BIP174 test vector: "Case: PSBT with one P2PKH input. Outputs are empty"
    raw = bytes.fromhex(
        "70736274ff0100750200000001268171371edff285e937adeea4b37b78000c0566cbb3ad64641713ca42171bf60000000000feff"
        "ffff02d3dff505000000001976a914d0c59903c5bac2868760e90fd521a4665aa7652088ac00e1f5050000000017a9143545e6e3"
        "3b832c47050f24d3eeb93c9c03948bc787b32e1300000100fda5010100000000010289a3c71eab4d20e0371bbba4cc698fa295c9"
        "463afa2e397f8533ccb62f9567e50100000017160014be18d152a9b012039daf3da7de4f53349eecb985ffffffff86f8aa43a71d"
        "ff1448893a530a7237ef6b4608bbb2dd2d0171e63aec6a4890b40100000017160014fe3e9ef1a745e974d902c4355943abcb34bd"
        "5353ffffffff0200c2eb0b000000001976a91485cff1097fd9e008bb34af709c62197b38978a4888ac72fef84e2c00000017a914"
        "339725ba21efd62ac753a9bcd067d6c7a6a39d05870247304402202712be22e0270f394f568311dc7ca9a68970b8025fdd3b2402"
        "29f07f8a5f3a240220018b38d7dcd314e734c9276bd6fb40f673325bc4baa144c800d2f2f02db2765c012103d2e15674941bad4a"
        "996372cb87e1856d3652606d98562fe39c5e9e7e413f210502483045022100d12b852d85dcd961d2f5f4ab660654df6eedcc794c"
        "0c33ce5cc309ffb5fce58d022067338a8e0e1725c197fb1a88af59f51e44e4255b20167c8684031c05d1f2592a01210223b72bee"
        "f0965d10be0778efecd61fcac6f79a4ea169393380734464f84f2ab300000000000000")
    p = parse(raw)
    assert len(p["inputs"]) == 1 and len(p["outputs"]) == 2
    assert p["inputs"][0][0][0] == b"\x00" and p["tx"]["ins"][0]["script_sig"] == b""
    assert serialize(p) == raw
