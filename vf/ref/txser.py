"""Reference transaction wire format (Bitcoin protocol docs, BIP141/144).

A transaction is a plain dict:
  {"version": u32, "segwit": bool, "locktime": u32,
   "ins":  [{"prev_tx": 32 bytes (display order), "prev_index": u32, "script": tokens,
             "sequence": u32, "witness": [bytes, ...]}],
   "outs": [{"amount": u64, "script": tokens}]}
tokens: list of ints (opcodes, incl. 0 = OP_0) and bytes (data pushes of 1..520 bytes).
"""
import hashlib
import struct


def sha256d(b):
    return hashlib.sha256(hashlib.sha256(b).digest()).digest()


def compact_size(n):
    if n < 0xFD:
        return bytes([n])
    if n <= 0xFFFF:
        return b"\xfd" + struct.pack("<H", n)
    if n <= 0xFFFFFFFF:
        return b"\xfe" + struct.pack("<I", n)
    return b"\xff" + struct.pack("<Q", n)


def read_compact_size(b, pos):
    f = b[pos]
    if f < 0xFD:
        return f, pos + 1
    if f == 0xFD:
        return struct.unpack_from("<H", b, pos + 1)[0], pos + 3
    if f == 0xFE:
        return struct.unpack_from("<I", b, pos + 1)[0], pos + 5
    return struct.unpack_from("<Q", b, pos + 1)[0], pos + 9


def push(data):
    """canonical (shortest push opcode) encoding of a data push"""
    n = len(data)
    if n == 0:
        return b"\x00"
    if n <= 75:
        return bytes([n]) + data
    if n <= 0xFF:
        return b"\x4c" + bytes([n]) + data
    if n <= 0xFFFF:
        return b"\x4d" + struct.pack("<H", n) + data
    return b"\x4e" + struct.pack("<I", n) + data


def script_bytes(tokens):
    out = b""
    for t in tokens:
        if isinstance(t, int):
            out += bytes([t])
        else:
            out += push(bytes(t))
    return out


def varstr(b):
    return compact_size(len(b)) + b


def ser_in(i, script=None):
    sb = script_bytes(i["script"]) if script is None else script
    return (
        i["prev_tx"][::-1] + struct.pack("<I", i["prev_index"]) + varstr(sb)
        + struct.pack("<I", i["sequence"])
    )


def ser_out(o):
    return struct.pack("<Q", o["amount"]) + varstr(script_bytes(o["script"]))


def ser_witness(items):
    return compact_size(len(items)) + b"".join(varstr(bytes(x)) for x in items)


def serialize(tx, witness=None):
    """witness=None: use tx['segwit']; False: stripped serialisation"""
    w = tx["segwit"] if witness is None else witness
    out = struct.pack("<I", tx["version"])
    if w:
        out += b"\x00\x01"
    out += compact_size(len(tx["ins"])) + b"".join(ser_in(i) for i in tx["ins"])
    out += compact_size(len(tx["outs"])) + b"".join(ser_out(o) for o in tx["outs"])
    if w:
        out += b"".join(ser_witness(i.get("witness", [])) for i in tx["ins"])
    out += struct.pack("<I", tx["locktime"])
    return out


def txid(tx):
    return sha256d(serialize(tx, witness=False))[::-1]


def selftest():
    # first ever bitcoin transaction to Hal Finney (block 170)
    raw = bytes.fromhex(
        "0100000001c997a5e56e104102fa209c6a852dd90660a20b2d9c352423edce25857fcd3704000000004847"
        "304402204e45e16932b8af514961a1d3a1a25fdf3f4f7732e9d624c6c61548ab5fb8cd410220181522ec8eca"
        "07de4860a4acdd12909d831cc56cbbac4622082221a8768d1d0901ffffffff0200ca9a3b00000000434104ae"
        "1a62fe09c5f51b13905f07f06b99a2f7159b2225f374cd378d71302fa28414e7aab37397f554a7df5f142c21"
        "c1b7303b8a0626f1baded5c72a704f7e6cd84cac00286bee0000000043410411db93e1dcdb8a016b49840f8c"
        "53bc1eb68a382e97b1482ecad7b148a6909a5cb2e0eaddfb84ccf9744464f82e160bfa9b8b64f9d4c03f999b"
        "8643f656b412a3ac00000000"
    )
    sig = bytes.fromhex(
        "304402204e45e16932b8af514961a1d3a1a25fdf3f4f7732e9d624c6c61548ab5fb8cd410220181522ec8eca"
        "07de4860a4acdd12909d831cc56cbbac4622082221a8768d1d0901"
    )
    pk1 = bytes.fromhex(
        "04ae1a62fe09c5f51b13905f07f06b99a2f7159b2225f374cd378d71302fa28414e7aab37397f554a7df5f14"
        "2c21c1b7303b8a0626f1baded5c72a704f7e6cd84c"
    )
    pk2 = bytes.fromhex(
        "0411db93e1dcdb8a016b49840f8c53bc1eb68a382e97b1482ecad7b148a6909a5cb2e0eaddfb84ccf9744464"
        "f82e160bfa9b8b64f9d4c03f999b8643f656b412a3"
    )
    tx = {
        "version": 1, "segwit": False, "locktime": 0,
        "ins": [{"prev_tx": bytes.fromhex(
            "0437cd7f8525ceed2324359c2d0ba26006d92d856a9c20fa0241106ee5a597c9"),
            "prev_index": 0, "script": [sig], "sequence": 0xFFFFFFFF, "witness": []}],
        "outs": [{"amount": 1000000000, "script": [pk1, 0xAC]},
                 {"amount": 4000000000, "script": [pk2, 0xAC]}],
    }
    assert serialize(tx) == raw
    assert txid(tx).hex() == "f4184fc596403b9d638783cf57adfe4c75c605f6356fbc91338530e9831e9e16"
    assert compact_size(252) == b"\xfc" and compact_size(253) == b"\xfd\xfd\x00"
    assert compact_size(0x10000) == b"\xfe\x00\x00\x01\x00"
    assert push(b"a" * 75)[0] == 75 and push(b"a" * 76)[:2] == b"\x4c\x4c"
    assert push(b"a" * 256)[:3] == b"\x4d\x00\x01"
