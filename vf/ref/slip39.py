"""Independent SLIP-0039 reference, written from the specification text.

* RS1024 is implemented as what the specification *defines* it to be: a Reed-Solomon code over
  GF(1024) = GF(2)[x]/(x^10 + x^3 + 1) with generator polynomial (x - a)(x - a^2)(x - a^3), a = x,
  evaluated by polynomial long division (no pre-computed GEN table).
* GF(256) = GF(2)[x]/(x^8 + x^4 + x^3 + x + 1) (0x11B) by carry-less multiplication and reduction;
  inverses by a^254; Lagrange interpolation straight from the formula.
* 4-round Feistel network with PBKDF2-HMAC-SHA256 (hashlib), salt "shamir" || id (the
  non-extendable form: the 5-bit exponent field of the 2019 text; for exponents 0..15 the encoding
  is identical to ext=0 + 4-bit exponent of the 2023 text).
* share packing: id(15) e(5) GI(4) Gt-1(4) g-1(4) I(4) t-1(4) | padded value | checksum(30).

The word lists next to this file are verbatim copies of the published SLIP-0039 / BIP-0039 English
lists (data, not code); the self-test checks their structural properties and decodes the official
SLIP-0039 test vectors with them.
"""
import hashlib
import hmac
import os

_HERE = os.path.dirname(os.path.abspath(__file__))


def _load(name, n):
    with open(os.path.join(_HERE, name)) as f:
        words = f.read().split()
    if len(words) != n:
        raise AssertionError(f"{name}: {len(words)} words")
    return words


WORDS = _load("slip39_wordlist.txt", 1024)
WORD_INDEX = {w: i for i, w in enumerate(WORDS)}
BIP39_WORDS = _load("bip39_english.txt", 2048)
BIP39_INDEX = {w: i for i, w in enumerate(BIP39_WORDS)}

CUSTOMIZATION = b"shamir"
DIGEST_INDEX = 254
SECRET_INDEX = 255
BASE_ITERATIONS = 10000
ROUNDS = 4


class Slip39Error(Exception):
    pass


# ------------------------------------------------------------------ GF(1024), RS1024


def gf1024_mul(a, b):
    r = 0
    while b:
        if b & 1:
            r ^= a
        b >>= 1
        a <<= 1
        if a & 0x400:
            a ^= 0x409  # x^10 + x^3 + 1
    return r


def _rs_generator():
    # (x - a)(x - a^2)(x - a^3) with a = x = 2; subtraction is xor
    a1 = 2
    a2 = gf1024_mul(a1, a1)
    a3 = gf1024_mul(a2, a1)
    g2 = a1 ^ a2 ^ a3
    g1 = gf1024_mul(a1, a2) ^ gf1024_mul(a1, a3) ^ gf1024_mul(a2, a3)
    g0 = gf1024_mul(gf1024_mul(a1, a2), a3)
    return g2, g1, g0


_G2, _G1, _G0 = _rs_generator()
# multiplication of every field element by the three generator coefficients (speed only)
_MG2 = [gf1024_mul(t, _G2) for t in range(1024)]
_MG1 = [gf1024_mul(t, _G1) for t in range(1024)]
_MG0 = [gf1024_mul(t, _G0) for t in range(1024)]


def rs1024_residue(values):
    """remainder of (x^len * 1 + sum values_i x^(len-1-i)) modulo the generator: (c2, c1, c0)"""
    c2, c1, c0 = 0, 0, 1
    for v in values:
        t = c2
        c2, c1, c0 = c1 ^ _MG2[t], c0 ^ _MG1[t], v ^ _MG0[t]
    return c2, c1, c0


def rs1024_verify(data, cs=CUSTOMIZATION):
    return rs1024_residue(list(cs) + list(data)) == (0, 0, 1)


def rs1024_checksum(data, cs=CUSTOMIZATION):
    c2, c1, c0 = rs1024_residue(list(cs) + list(data) + [0, 0, 0])
    return [c2, c1, c0 ^ 1]


# ------------------------------------------------------------------ GF(256)


def gf256_mul(a, b):
    r = 0
    for i in range(8):  # carry-less product
        if (b >> i) & 1:
            r ^= a << i
    for bit in range(14, 7, -1):  # reduction modulo x^8 + x^4 + x^3 + x + 1
        if (r >> bit) & 1:
            r ^= 0x11B << (bit - 8)
    return r


_MUL = [bytes(gf256_mul(a, b) for b in range(256)) for a in range(256)]


def gf256_pow(a, e):
    r = 1
    for _ in range(e):
        r = _MUL[r][a]
    return r


_INV = [0] + [gf256_pow(a, 254) for a in range(1, 256)]


def gf256_inv(a):
    if a == 0:
        raise ZeroDivisionError
    return _INV[a]


def interpolate(x, points):
    """points: list of (x_i, bytes) with distinct x_i; value at x of the unique polynomial of degree
    < len(points) through them, for every byte position"""
    xs = [p[0] for p in points]
    if len(set(xs)) != len(xs):
        raise Slip39Error("duplicate x")
    n = len(points[0][1])
    for xi, yi in points:
        if xi == x:
            return bytes(yi)
    out = [0] * n
    for xi, yi in points:
        num, den = 1, 1
        for xj in xs:
            if xj != xi:
                num = _MUL[num][x ^ xj]
                den = _MUL[den][xi ^ xj]
        coef = _MUL[num][_INV[den]]
        row = _MUL[coef]
        for j in range(n):
            out[j] ^= row[yi[j]]
    return bytes(out)


def poly_eval(coeffs, x):
    """coeffs[d] = bytes of the degree-d coefficients (one polynomial per byte position)"""
    n = len(coeffs[0])
    out = [0] * n
    for c in reversed(coeffs):  # Horner
        row = _MUL[x]
        for j in range(n):
            out[j] = row[out[j]] ^ c[j]
    return bytes(out)


# ------------------------------------------------------------------ encryption


def _round(i, passphrase, e, salt, r):
    return hashlib.pbkdf2_hmac(
        "sha256", bytes([i]) + passphrase, salt + r, (BASE_ITERATIONS << e) // ROUNDS, dklen=len(r)
    )


def _xor(a, b):
    return bytes(x ^ y for x, y in zip(a, b))


def _salt(identifier):
    return CUSTOMIZATION + identifier.to_bytes(2, "big")


def encrypt(master_secret, passphrase, e, identifier):
    if len(master_secret) % 2:
        raise Slip39Error("odd length")
    h = len(master_secret) // 2
    left, right = master_secret[:h], master_secret[h:]
    salt = _salt(identifier)
    for i in range(ROUNDS):
        left, right = right, _xor(left, _round(i, passphrase, e, salt, right))
    return right + left


def decrypt(ems, passphrase, e, identifier):
    if len(ems) % 2:
        raise Slip39Error("odd length")
    h = len(ems) // 2
    left, right = ems[:h], ems[h:]
    salt = _salt(identifier)
    for i in reversed(range(ROUNDS)):
        left, right = right, _xor(left, _round(i, passphrase, e, salt, right))
    return right + left


# ------------------------------------------------------------------ secret sharing


def _digest(r, secret):
    return hmac.new(r, secret, hashlib.sha256).digest()[:4]


def split_secret(t, n, secret, rnd):
    """SplitSecret(T, N, S): list of (index, bytes) for index 0..N-1. rnd(k) -> k random bytes"""
    if not 1 <= t <= n <= 16:
        raise Slip39Error("bad threshold")
    if t == 1:
        return [(i, bytes(secret)) for i in range(n)]
    ln = len(secret)
    r = rnd(ln - 4)
    d = _digest(r, secret) + r
    base = [(i, rnd(ln)) for i in range(t - 2)]
    pts = base + [(DIGEST_INDEX, d), (SECRET_INDEX, bytes(secret))]
    return base + [(i, interpolate(i, pts)) for i in range(t - 2, n)]


def recover_secret(t, points):
    """RecoverSecret(T, shares): points is a list of (index, bytes), len >= T"""
    if t == 1:
        return bytes(points[0][1])
    s = interpolate(SECRET_INDEX, points)
    d = interpolate(DIGEST_INDEX, points)
    if _digest(d[4:], s) != d[:4]:
        raise Slip39Error("digest mismatch")
    return s


# ------------------------------------------------------------------ share text


def _bits_to_words(value, nwords):
    return [(value >> (10 * (nwords - 1 - i))) & 1023 for i in range(nwords)]


def encode_share(identifier, e, gi, gt, gc, mi, mt, value):
    """value: bytes (share value); returns the mnemonic string"""
    assert 0 <= identifier < 2**15 and 0 <= e < 32
    assert 0 <= gi < 16 and 1 <= gt <= 16 and 1 <= gc <= 16 and 0 <= mi < 16 and 1 <= mt <= 16
    head = identifier
    for width, v in ((5, e), (4, gi), (4, gt - 1), (4, gc - 1), (4, mi), (4, mt - 1)):
        head = (head << width) | v
    nvalue_words = -(-(len(value) * 8) // 10)
    idx = _bits_to_words(head, 4) + _bits_to_words(int.from_bytes(value, "big"), nvalue_words)
    idx += rs1024_checksum(idx)
    return " ".join(WORDS[i] for i in idx)


def words_to_indices(mnemonic):
    try:
        return [WORD_INDEX[w] for w in mnemonic.split()]
    except KeyError as ex:
        raise Slip39Error(f"unknown word {ex}")


def decode_share(mnemonic):
    idx = words_to_indices(mnemonic)
    if len(idx) < 20:
        raise Slip39Error("too short")
    pad = (10 * (len(idx) - 7)) % 16
    if pad > 8:
        raise Slip39Error("invalid length")
    if not rs1024_verify(idx):
        raise Slip39Error("checksum")
    head = 0
    for v in idx[:4]:
        head = (head << 10) | v
    mt = (head & 15) + 1
    mi = (head >> 4) & 15
    gc = ((head >> 8) & 15) + 1
    gt = ((head >> 12) & 15) + 1
    gi = (head >> 16) & 15
    e = (head >> 20) & 31
    identifier = head >> 25
    if gt > gc:
        raise Slip39Error("group threshold > group count")
    value = 0
    for v in idx[4:-3]:
        value = (value << 10) | v
    nbits = 10 * (len(idx) - 7) - pad
    if value >> nbits:
        raise Slip39Error("padding not zero")
    return {
        "id": identifier, "e": e, "gi": gi, "gt": gt, "gc": gc, "mi": mi, "mt": mt,
        "value": value.to_bytes(nbits // 8, "big"),
    }


# ------------------------------------------------------------------ top level


def generate(master_secret, k, n, passphrase, e, identifier, rnd):
    """The layout produced by the library under test: k-of-n *groups*, each a 1-of-1 group.
    Returns n mnemonics."""
    if len(master_secret) not in (16, 32):
        raise Slip39Error("secret length")
    ems = encrypt(master_secret, passphrase, e, identifier)
    return [
        encode_share(identifier, e, gi, k, n, 0, 1, y) for gi, y in split_secret(k, n, ems, rnd)
    ]


def recover_ems(mnemonics):
    """Full two-level recovery per the specification: (id, e, encrypted master secret)."""
    if not mnemonics:
        raise Slip39Error("no shares")
    shares = [decode_share(m) for m in mnemonics]
    for f in ("id", "e", "gt", "gc"):
        if len({s[f] for s in shares}) != 1:
            raise Slip39Error(f"mismatching {f}")
    if len({len(s["value"]) for s in shares}) != 1:
        raise Slip39Error("mismatching lengths")
    gt = shares[0]["gt"]
    groups = {}
    for s in shares:
        groups.setdefault(s["gi"], []).append(s)
    if len(groups) != gt:
        raise Slip39Error("number of groups differs from the group threshold")
    gpoints = []
    for gi, members in sorted(groups.items()):
        if len({m["mt"] for m in members}) != 1:
            raise Slip39Error("mismatching member thresholds")
        mt = members[0]["mt"]
        if len({m["mi"] for m in members}) != len(members):
            raise Slip39Error("duplicate member index")
        if len(members) != mt:
            raise Slip39Error("number of members differs from the member threshold")
        gpoints.append((gi, recover_secret(mt, [(m["mi"], m["value"]) for m in members])))
    return shares[0]["id"], shares[0]["e"], recover_secret(gt, gpoints)


def recover_lenient(mnemonics):
    """As recover_ems but accepting MORE than the threshold number of distinct groups (what the
    property calls 'k or more shares'); all points must then lie on one polynomial of degree < gt:
    every gt-subset prefix must agree, otherwise the set is inconsistent."""
    if not mnemonics:
        raise Slip39Error("no shares")
    shares = [decode_share(m) for m in mnemonics]
    for f in ("id", "e", "gt", "gc"):
        if len({s[f] for s in shares}) != 1:
            raise Slip39Error(f"mismatching {f}")
    if len({len(s["value"]) for s in shares}) != 1:
        raise Slip39Error("mismatching lengths")
    if any(s["mt"] != 1 for s in shares):
        raise Slip39Error("lenient recovery is for 1-of-1 groups only")
    gt = shares[0]["gt"]
    pts = [(s["gi"], s["value"]) for s in shares]
    if len({p[0] for p in pts}) != len(pts):
        raise Slip39Error("duplicate group index")
    if len(pts) < gt:
        raise Slip39Error("not enough shares")
    ems = recover_secret(gt, pts[:gt])
    if gt > 1:
        basis = pts[:gt]
        for x, y in pts[gt:]:
            if interpolate(x, basis) != y:
                raise Slip39Error("inconsistent shares")
    else:
        if any(y != pts[0][1] for _, y in pts):
            raise Slip39Error("inconsistent shares")
    return shares[0]["id"], shares[0]["e"], ems


def recover(mnemonics, passphrase, lenient=False):
    identifier, e, ems = (recover_lenient if lenient else recover_ems)(mnemonics)
    return decrypt(ems, passphrase, e, identifier)


# ------------------------------------------------------------------ BIP39 (entropy <-> words)


def bip39_encode(entropy):
    if len(entropy) not in (16, 20, 24, 28, 32):
        raise Slip39Error("entropy length")
    cs_bits = len(entropy) // 4
    cs = hashlib.sha256(entropy).digest()[0] >> (8 - cs_bits)
    v = (int.from_bytes(entropy, "big") << cs_bits) | cs
    nwords = (len(entropy) * 8 + cs_bits) // 11
    return " ".join(BIP39_WORDS[(v >> (11 * (nwords - 1 - i))) & 2047] for i in range(nwords))


def bip39_decode(mnemonic):
    words = mnemonic.split()
    if len(words) not in (12, 15, 18, 21, 24):
        raise Slip39Error("word count")
    v = 0
    for w in words:
        if w not in BIP39_INDEX:
            raise Slip39Error("unknown word")
        v = (v << 11) | BIP39_INDEX[w]
    cs_bits = len(words) // 3
    entropy = (v >> cs_bits).to_bytes(len(words) * 11 // 33 * 4, "big")
    if hashlib.sha256(entropy).digest()[0] >> (8 - cs_bits) != v & ((1 << cs_bits) - 1):
        raise Slip39Error("bip39 checksum")
    return entropy


# ------------------------------------------------------------------ deterministic randomness


class DetRand:
    """Deterministic stand-in for secrets.randbits, seeded from the case record.  The 15-bit draw
    (the share-set identifier) can be pinned so that the harness controls identifiers."""

    def __init__(self, seed, identifier=None):
        self.seed = bytes(seed)
        self.identifier = identifier
        self.ctr = 0
        self.buf = b""
        self.calls = 0

    def take(self, n):
        while len(self.buf) < n:
            self.buf += hashlib.sha256(self.seed + self.ctr.to_bytes(8, "big")).digest()
            self.ctr += 1
        out, self.buf = self.buf[:n], self.buf[n:]
        return out

    def __call__(self, nbits):
        self.calls += 1
        if nbits == 15 and self.identifier is not None:
            return self.identifier
        nbytes = (nbits + 7) // 8
        return int.from_bytes(self.take(nbytes), "big") >> (nbytes * 8 - nbits)


# ------------------------------------------------------------------ self-test

_V = [  # official SLIP-0039 vectors (passphrase "TREZOR"): (mnemonics, master secret hex or None)
    (["duckling enlarge academic academic agency result length solution fridge kidney coal piece "
      "deal husband erode duke ajar critical decision keyboard"],
     "bb54aac4b89dc868ba37d9cc21b2cece"),
    (["duckling enlarge academic academic agency result length solution fridge kidney coal piece "
      "deal husband erode duke ajar critical decision kidney"], None),  # invalid checksum
    (["duckling enlarge academic academic email result length solution fridge kidney coal piece "
      "deal husband erode duke ajar music cargo fitness"], None),  # invalid padding
    (["shadow pistol academic always adequate wildlife fancy gross oasis cylinder mustang wrist "
      "rescue view short owner flip making coding armed",
      "shadow pistol academic acid actress prayer class unknown daughter sweater depict flip "
      "twice unkind craft early superior advocate guest smoking"],
     "b43ceb7e57a0ea8766221624d01b0864"),
    (["shadow pistol academic always adequate wildlife fancy gross oasis cylinder mustang wrist "
      "rescue view short owner flip making coding armed"], None),
    (["adequate smoking academic acid debut wine petition glen cluster slow rhyme slow simple "
      "epidemic rumor junk tracks treat olympic tolerate",
      "adequate stay academic agency agency formal party ting frequent learn upstairs remember "
      "smear leaf damage anatomy ladle market hush corner"], None),  # different identifiers
    (["guilt walnut academic acid deliver remove equip listen vampire tactics nylon rhythm "
      "failure husband fatigue alive blind enemy teaspoon rebound",
      "guilt walnut academic agency brave hamster hobo declare herd taste alpha slim criminal "
      "mild arcade formal romp branch pink ambition"], None),  # invalid digest
    (["eraser senior decision roster beard treat identify grumpy salt index fake aviation theater "
      "cubic bike cause research dragon emphasis counter",
      "eraser senior ceramic snake clay various huge numb argue hesitate auction category timber "
      "browser greatest hanger petition script leaf pickup",
      "eraser senior ceramic shaft dynamic become junior wrist silver peasant force math alto "
      "coal amazing segment yelp velvet image paces",
      "eraser senior ceramic round column hawk trust auction smug shame alive greatest sheriff "
      "living perfect corner chest sled fumes adequate",
      "eraser senior decision smug corner ruin rescue cubic angel tackle skin skunk program "
      "roster trash rumor slush angel flea amazing"],
     "7c3397a292a5941682d7a4ae2d898d11"),
    (["eraser senior beard romp adorn nuclear spill corner cradle style ancient family general "
      "leader ambition exchange unusual garlic promise voice",
      "eraser senior acrobat romp bishop medical gesture pumps secret alive ultimate quarter "
      "priest subject class dictate spew material endless market"],
     "7c3397a292a5941682d7a4ae2d898d11"),
    (["theory painting academic academic armed sweater year military elder discuss acne wildlife "
      "boring employer fused large satoshi bundle carbon diagnose anatomy hamster leaves tracks "
      "paces beyond phantom capital marvel lips brave detect luck"],
     "989baf9dcaad5b10ca33dfd8cc75e42477025dce88ae83e75a230086a0e00e92"),
    (["humidity disease academic always aluminum jewelry energy woman receiver strategy amuse "
      "duckling lying evidence network walnut tactics forget hairy rebound impulse brother "
      "survive clothes stadium mailman rival ocean reward venture always armed unwrap",
      "humidity disease academic agency actress jacket gross physics cylinder solution fake "
      "mortgage benefit public busy prepare sharp friar change work slow purchase ruler again "
      "tricycle involve viral wireless mixture anatomy desert cargo upgrade"],
     "c938b319067687e990e05e0da0ecce1278f75ff58d9853f19dcaeed5de104aae"),
    (["junk necklace academic academic acne isolate join hesitate lunar roster dough calcium "
      "chemical ladybug amount mobile glasses verify cylinder"], None),  # insufficient length
    (["fraction necklace academic academic award teammate mouse regular testify coding building "
      "member verdict purchase blind camera duration email prepare spirit quarter"], None),
]

_GEN_SPEC = [0xE0E040, 0x1C1C080, 0x3838100, 0x7070200, 0xE0E0009, 0x1C0C2412, 0x38086C24,
             0x3090FC48, 0x21B1F890, 0x3F3F120]

_done = False


def selftest():
    global _done
    if _done:
        return
    # word lists: structure demanded by the specifications
    assert WORDS == sorted(WORDS) and len(set(WORDS)) == 1024
    assert all(4 <= len(w) <= 8 and w.isalpha() and w.islower() for w in WORDS)
    assert len({w[:4] for w in WORDS}) == 1024
    assert WORDS[0] == "academic" and WORDS[-1] == "zero"
    assert BIP39_WORDS == sorted(BIP39_WORDS) and len({w[:4] for w in BIP39_WORDS}) == 2048
    assert hashlib.sha256(open(os.path.join(_HERE, "bip39_english.txt"), "rb").read()).hexdigest() \
        == "2f5eed53a4727b4bf8880d8f3f199efc90e58503646d9ff8eff3a2ed3b24dbda"
    # RS1024: the first-principles generator equals the table printed in the specification
    assert (_G2, _G1, _G0) == (14, 56, 64)
    for i in range(10):
        t = 1 << i
        assert (_MG2[t] << 20) | (_MG1[t] << 10) | _MG0[t] == _GEN_SPEC[i]
    # GF(256): AES field facts (FIPS-197: {57}x{83} = {c1}, {53}^-1 = {ca}), 3 generates the group
    assert gf256_mul(0x57, 0x83) == 0xC1 and gf256_inv(0x53) == 0xCA
    assert len({gf256_pow(3, i) for i in range(255)}) == 255
    for a in (1, 2, 3, 0x53, 0xFF):
        assert gf256_mul(a, gf256_inv(a)) == 1
    # official vectors
    for mnemonics, want in _V:
        try:
            got = recover(mnemonics, b"TREZOR").hex()
        except Slip39Error:
            got = None
        assert got == want, (mnemonics[0][:30], got, want)
        if want is not None:
            for m in mnemonics:
                d = decode_share(m)
                assert encode_share(d["id"], d["e"], d["gi"], d["gt"], d["gc"], d["mi"], d["mt"],
                                    d["value"]) == m
    # encryption inverts; split/recover round trip for every (k, n) incl. polynomial evaluation
    ms = bytes(range(16))
    assert decrypt(encrypt(ms, b"pw", 1, 12345), b"pw", 1, 12345) == ms
    assert encrypt(ms, b"pw", 0, 12345) != encrypt(ms, b"pw", 0, 12346)
    rnd = DetRand(b"selftest")
    for n in range(1, 17):
        for k in range(1, n + 1):
            sh = generate(ms, k, n, b"", 0, 77, rnd.take) if (k, n) in ((1, 1), (2, 3), (16, 16)) \
                else None
            pts = split_secret(k, n, ms, rnd.take)
            assert len(pts) == n
            assert recover_secret(k, pts[n - k:]) == ms
            if sh:
                assert recover(sh[:k], b"") == ms and recover(sh, b"", lenient=True) == ms
    coeffs = [rnd.take(8) for _ in range(5)]
    pts = [(x, poly_eval(coeffs, x)) for x in (0, 3, 9, 200, 255)]
    for x in range(256):
        assert interpolate(x, pts) == poly_eval(coeffs, x)
    # BIP39 vectors (BIP-0039 test vectors)
    assert bip39_encode(bytes(16)) == "abandon " * 11 + "about"
    assert bip39_encode(b"\xff" * 16) == "zoo " * 11 + "wrong"
    assert bip39_encode(b"\x7f" * 16) == ("legal winner thank year wave sausage worth useful legal "
                                          "winner thank yellow")
    assert bip39_encode(b"\x80" * 16) == ("letter advice cage absurd amount doctor acoustic avoid "
                                          "letter advice cage above")
    assert bip39_encode(bytes(32)) == "abandon " * 23 + "art"
    assert bip39_encode(b"\xff" * 32) == "zoo " * 23 + "vote"
    assert bip39_decode(bip39_encode(ms)) == ms
    _done = True
