"""Independent BIP39 reference (written from BIP-0039).

  * ENT in {128,160,192,224,256} bits, CS = ENT/32 checksum bits = first CS bits of SHA-256(ENT),
    ENT||CS split into 11-bit big-endian groups, each indexing the 2048-word English list
  * seed = PBKDF2-HMAC-SHA512(password = mnemonic sentence (UTF-8 NFKD), salt = "mnemonic" + passphrase,
    2048 iterations, 64 bytes); PBKDF2 oracle = hashlib.pbkdf2_hmac (OpenSSL)
  * master key = BIP32 master derivation (vf.ref.bip32)

The word list (bip39_english.txt next to this file) is the official bip-0039/english.txt; its SHA-256 is
checked in selftest() against the well-known digest of that file.
"""
import hashlib
import os

from vf.ref import bip32

ENGLISH_SHA256 = "2f5eed53a4727b4bf8880d8f3f199efc90e58503646d9ff8eff3a2ed3b24dbda"
ENTROPY_LENGTHS = (16, 20, 24, 28, 32)
WORD_COUNTS = (12, 15, 18, 21, 24)

_path = os.path.join(os.path.dirname(os.path.abspath(__file__)), "bip39_english.txt")
with open(_path, "rb") as _f:
    _RAW = _f.read()
WORDS = _RAW.decode("ascii").split("\n")[:-1]
INDEX = {w: i for i, w in enumerate(WORDS)}


def checksum(entropy):
    """(number of checksum bits, checksum value)"""
    cs = len(entropy) * 8 // 32
    return cs, hashlib.sha256(entropy).digest()[0] >> (8 - cs)


def entropy_to_indices(entropy):
    if len(entropy) not in ENTROPY_LENGTHS:
        raise ValueError("entropy must be 16, 20, 24, 28 or 32 bytes")
    cs, c = checksum(entropy)
    total = len(entropy) * 8 + cs
    v = (int.from_bytes(entropy, "big") << cs) | c
    return [(v >> (total - 11 * (i + 1))) & 0x7FF for i in range(total // 11)]


def entropy_to_mnemonic(entropy):
    return " ".join(WORDS[i] for i in entropy_to_indices(entropy))


def resolve(token):
    """index of a full word, or of the only word that a four-letter token abbreviates; else None"""
    if token in INDEX:
        return INDEX[token]
    if len(token) == 4:
        hits = [i for i, w in enumerate(WORDS) if w.startswith(token)]
        if len(hits) == 1:
            return hits[0]
    return None


def decode_indices(indices):
    """entropy bytes, or None when the length or the checksum is invalid"""
    n = len(indices)
    if n not in WORD_COUNTS:
        return None
    v = 0
    for i in indices:
        v = (v << 11) | i
    cs = n // 3
    ent_bits = n * 11 - cs
    entropy = (v >> cs).to_bytes(ent_bits // 8, "big")
    if checksum(entropy) != (cs, v & ((1 << cs) - 1)):
        return None
    return entropy


def decode(tokens):
    """tokens: list of full words / four-letter abbreviations -> entropy or None"""
    idx = [resolve(t) for t in tokens]
    if any(i is None for i in idx):
        return None
    return decode_indices(idx)


def seed(sentence, passphrase=b""):
    """sentence: full words joined by single spaces; passphrase: bytes (already encoded)"""
    return hashlib.pbkdf2_hmac("sha512", sentence.encode("utf-8"), b"mnemonic" + passphrase, 2048, 64)


def master(sentence, passphrase=b""):
    return bip32.Node.master(seed(sentence, passphrase))


# (entropy, mnemonic, seed, xprv) -- official BIP39 test vectors, passphrase "TREZOR"
_VECTORS = [
    ("00000000000000000000000000000000",
     "abandon abandon abandon abandon abandon abandon abandon abandon abandon abandon abandon about",
     "c55257c360c07c72029aebc1b53c05ed0362ada38ead3e3e9efa3708e53495531f09a6987599d18264c1e1c92f2c"
     "f141630c7a3c4ab7c81b2f001698e7463b04",
     "xprv9s21ZrQH143K3h3fDYiay8mocZ3afhfULfb5GX8kCBdno77K4HiA15Tg23wpbeF1pLfs1c5SPmYHrEpTuuRhxMw"
     "vKDwqdKiGJS9XFKzUsAF"),
    ("7f7f7f7f7f7f7f7f7f7f7f7f7f7f7f7f",
     "legal winner thank year wave sausage worth useful legal winner thank yellow",
     "2e8905819b8723fe2c1d161860e5ee1830318dbf49a83bd451cfb8440c28bd6fa457fe1296106559a3c80937a1c1"
     "069be3a3a5bd381ee6260e8d9739fce1f607",
     "xprv9s21ZrQH143K2gA81bYFHqU68xz1cX2APaSq5tt6MFSLeXnCKV1RVUJt9FWNTbrrryem4ZckN8k4Ls1H6nwdvDT"
     "vnV7zEXs2HgPezuVccsq"),
    ("ffffffffffffffffffffffffffffffff",
     "zoo zoo zoo zoo zoo zoo zoo zoo zoo zoo zoo wrong",
     "ac27495480225222079d7be181583751e86f571027b0497b5b5d11218e0a8a13332572917f0f8e5a589620c6f15b"
     "11c61dee327651a14c34e18231052e48c069",
     "xprv9s21ZrQH143K2V4oox4M8Zmhi2Fjx5XK4Lf7GKRvPSgydU3mjZuKGCTg7UPiBUD7ydVPvSLtg9hjp7MQTYsW67r"
     "ZHAXeccqYqrsx8LcXnyd"),
    ("808080808080808080808080808080808080808080808080",
     "letter advice cage absurd amount doctor acoustic avoid letter advice cage absurd amount doctor "
     "acoustic avoid letter always",
     "107d7c02a5aa6f38c58083ff74f04c607c2d2c0ecc55501dadd72d025b751bc27fe913ffb796f841c49b1d33b610"
     "cf0e91d3aa239027f5e99fe4ce9e5088cd65",
     "xprv9s21ZrQH143K3VPCbxbUtpkh9pRG371UCLDz3BjceqP1jz7XZsQ5EnNkYAEkfeZp62cDNj13ZTEVG1TEro9sZ9g"
     "rfRmcYWLBhCocViKEJae"),
    ("6610b25967cdcca9d59875f5cb50b0ea75433311869e930b",
     "gravity machine north sort system female filter attitude volume fold club stay feature office "
     "ecology stable narrow fog",
     "628c3827a8823298ee685db84f55caa34b5cc195a778e52d45f59bcf75aba68e4d7590e101dc414bc1bbd5737666"
     "fbbef35d1f1903953b66624f910feef245ac",
     "xprv9s21ZrQH143K3uT8eQowUjsxrmsA9YUuQQK1RLqFufzybxD6DH6gPY7NjJ5G3EPHjsWDrs9iivSbmvjc9DQJbJG"
     "atfa9pv4MZ3wjr8qWPAK"),
    ("0000000000000000000000000000000000000000000000000000000000000000",
     "abandon abandon abandon abandon abandon abandon abandon abandon abandon abandon abandon abandon "
     "abandon abandon abandon abandon abandon abandon abandon abandon abandon abandon abandon art",
     "bda85446c68413707090a52022edd26a1c9462295029f2e60cd7c4f2bbd3097170af7a4d73245cafa9c3cca8d561"
     "a7c3de6f5d4a10be8ed2a5e608d68f92fcc8",
     "xprv9s21ZrQH143K32qBagUJAMU2LsHg3ka7jqMcV98Y7gVeVyNStwYS3U7yVVoDZ4btbRNf4h6ibWpY22iRmXq35qg"
     "Ls79f312g2kj5539ebPM"),
    ("ffffffffffffffffffffffffffffffffffffffffffffffffffffffffffffffff",
     "zoo zoo zoo zoo zoo zoo zoo zoo zoo zoo zoo zoo zoo zoo zoo zoo zoo zoo zoo zoo zoo zoo zoo vote",
     "dd48c104698c30cfe2b6142103248622fb7bb0ff692eebb00089b32d22484e1613912f0a5b694407be899ffd31ed"
     "3992c456cdf60f5d4564b8ba3f05a69890ad",
     "xprv9s21ZrQH143K2WFF16X85T2QCpndrGwx6GueB72Zf3AHwHJaknRXNF37ZmDrtHrrLSHvbuRejXcnYxoZKvRquTP"
     "yp2JiNG3XcjQyzSEgqCB"),
    ("f585c11aec520db57dd353c69554b21a89b20fb0650966fa0a9d6f74fd989d8f",
     "void come effort suffer camp survey warrior heavy shoot primary clutch crush open amazing screen "
     "patrol group space point ten exist slush involve unfold",
     "01f5bced59dec48e362f2c45b5de68b9fd6c92c6634f44d6d40aab69056506f0e35524a518034ddc1192e1dacd32"
     "c1ed3eaa3c3b131c88ed8e7e54c49a5d0998",
     "xprv9s21ZrQH143K39rnQJknpH1WEPFJrzmAqqasiDcVrNuk926oizzJDDQkdiTvNPr2FYDYzWgiMiC63YmfPAa2oPy"
     "NB23r2g7d1yiK6WpqaQS"),
]


def selftest():
    bip32.ensure_selftest()
    assert hashlib.sha256(_RAW).hexdigest() == ENGLISH_SHA256
    assert len(WORDS) == 2048 and len(INDEX) == 2048 and WORDS == sorted(WORDS)
    assert WORDS[0] == "abandon" and WORDS[3] == "about" and WORDS[2047] == "zoo"
    assert all(3 <= len(w) <= 8 and w.isalpha() and w.islower() for w in WORDS)
    # the first four letters identify a word
    assert len({w[:4] for w in WORDS}) == 2048
    assert resolve("aban") == 0 and resolve("zoo") == 2047 and resolve("abou") == 3
    assert resolve("zo") is None and resolve("aband") is None and resolve("xxxx") is None
    for ent, sentence, sd, xprv in _VECTORS:
        e = bytes.fromhex(ent)
        assert entropy_to_mnemonic(e) == sentence, sentence
        assert decode(sentence.split(" ")) == e
        assert decode([w[:4] for w in sentence.split(" ")]) == e
        assert seed(sentence, b"TREZOR").hex() == sd
        assert master(sentence, b"TREZOR").xprv() == xprv
    words = _VECTORS[0][1].split(" ")
    assert decode(words[:-1] + ["abandon"]) is None          # bad checksum
    assert decode(words[:-1]) is None and decode(words + ["abandon"]) is None   # bad length
    assert decode(words[:-1] + ["abouts"]) is None            # not a word
    # number of valid last words: 2^(11 - CS)
    assert sum(decode_indices([0] * 11 + [i]) is not None for i in range(2048)) == 128
    assert sum(decode_indices([5] * 23 + [i]) is not None for i in range(2048)) == 8


_done = False


def ensure_selftest():
    global _done
    if not _done:
        selftest()
        _done = True
