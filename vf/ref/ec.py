"""Independent secp256k1 reference: Jacobian arithmetic, SEC1 codecs, RFC 6979
ECDSA with low-S, strict DER, BIP340.  Written from SEC1/SEC2, RFC 6979, BIP66
and the BIP340 pseudo-code -- deliberately shares no code with buidl."""
import hashlib
import hmac

P = 0xFFFFFFFFFFFFFFFFFFFFFFFFFFFFFFFFFFFFFFFFFFFFFFFFFFFFFFFEFFFFFC2F
N = 0xFFFFFFFFFFFFFFFFFFFFFFFFFFFFFFFEBAAEDCE6AF48A03BBFD25E8CD0364141
GX = 0x79BE667EF9DCBBAC55A06295CE870B07029BFCDB2DCE28D959F2815B16F81798
GY = 0x483ADA7726A3C4655DA4FBFC0E1108A8FD17B448A68554199C47D08FFB10D4B8
G = (GX, GY)
INF = None  # affine infinity


def on_curve(pt):
    if pt is None:
        return True
    x, y = pt
    return 0 <= x < P and 0 <= y < P and (y * y - x * x * x - 7) % P == 0


def _jdouble(p):
    x, y, z = p
    if y == 0 or z == 0:
        return (0, 1, 0)
    ysq = y * y % P
    s = 4 * x * ysq % P
    m = 3 * x * x % P
    nx = (m * m - 2 * s) % P
    ny = (m * (s - nx) - 8 * ysq * ysq) % P
    nz = 2 * y * z % P
    return (nx, ny, nz)


def _jadd(p, q):
    if p[2] == 0:
        return q
    if q[2] == 0:
        return p
    x1, y1, z1 = p
    x2, y2, z2 = q
    z1z1 = z1 * z1 % P
    z2z2 = z2 * z2 % P
    u1 = x1 * z2z2 % P
    u2 = x2 * z1z1 % P
    s1 = y1 * z2 * z2z2 % P
    s2 = y2 * z1 * z1z1 % P
    if u1 == u2:
        if s1 != s2:
            return (0, 1, 0)
        return _jdouble(p)
    h = (u2 - u1) % P
    r = (s2 - s1) % P
    h2 = h * h % P
    h3 = h * h2 % P
    u1h2 = u1 * h2 % P
    nx = (r * r - h3 - 2 * u1h2) % P
    ny = (r * (u1h2 - nx) - s1 * h3) % P
    nz = h * z1 * z2 % P
    return (nx, ny, nz)


def _to_affine(p):
    if p[2] == 0:
        return None
    zi = pow(p[2], -1, P)
    zi2 = zi * zi % P
    return (p[0] * zi2 % P, p[1] * zi2 * zi % P)


def _to_j(pt):
    return (0, 1, 0) if pt is None else (pt[0], pt[1], 1)


def add(a, b):
    return _to_affine(_jadd(_to_j(a), _to_j(b)))


def neg(a):
    return None if a is None else (a[0], (-a[1]) % P)


def mul(k, pt=G):
    """k * pt for any integer k (reduced mod n; pt must be in the prime-order group)."""
    k %= N
    acc = (0, 1, 0)
    cur = _to_j(pt)
    while k:
        if k & 1:
            acc = _jadd(acc, cur)
        cur = _jdouble(cur)
        k >>= 1
    return _to_affine(acc)


def mul2(u, v, q):
    """u*G + v*q"""
    return add(mul(u), mul(v, q))


def lift_x(x, odd=False):
    """point with given x and requested y parity, or None when x is not on the curve"""
    if not 0 <= x < P:
        return None
    c = (pow(x, 3, P) + 7) % P
    y = pow(c, (P + 1) // 4, P)
    if y * y % P != c:
        return None
    if (y & 1) != (1 if odd else 0):
        y = P - y
    return (x, y)


def sec(pt, compressed=True):
    x, y = pt
    if compressed:
        return bytes([2 + (y & 1)]) + x.to_bytes(32, "big")
    return b"\x04" + x.to_bytes(32, "big") + y.to_bytes(32, "big")


def parse_sec(b):
    """SEC1 decoder: returns the point or None for anything that is not a valid encoding."""
    if len(b) == 33 and b[0] in (2, 3):
        return lift_x(int.from_bytes(b[1:], "big"), odd=(b[0] == 3))
    if len(b) == 65 and b[0] == 4:
        pt = (int.from_bytes(b[1:33], "big"), int.from_bytes(b[33:], "big"))
        if pt[0] >= P or pt[1] >= P or not on_curve(pt):
            return None
        return pt
    return None


def parse_xonly(b):
    if len(b) != 32:
        return None
    return lift_x(int.from_bytes(b, "big"), odd=False)


# --------------------------------------------------------------------- ECDSA


def bits2octets(z):
    """RFC 6979 2.3.4 for qlen = 256 with a 256-bit integer input"""
    z1 = z % (1 << 256)
    if z1 >= N:
        z1 -= N
    return z1.to_bytes(32, "big")


def rfc6979_k(secret, z):
    x = secret.to_bytes(32, "big")
    h1 = bits2octets(z)
    V = b"\x01" * 32
    K = b"\x00" * 32
    K = hmac.new(K, V + b"\x00" + x + h1, hashlib.sha256).digest()
    V = hmac.new(K, V, hashlib.sha256).digest()
    K = hmac.new(K, V + b"\x01" + x + h1, hashlib.sha256).digest()
    V = hmac.new(K, V, hashlib.sha256).digest()
    while True:
        V = hmac.new(K, V, hashlib.sha256).digest()
        k = int.from_bytes(V, "big")
        if 1 <= k < N:
            return k
        K = hmac.new(K, V + b"\x00", hashlib.sha256).digest()
        V = hmac.new(K, V, hashlib.sha256).digest()


def ecdsa_sign_with_k(secret, z, k, low_s=True):
    R = mul(k)
    r = R[0] % N
    s = (z + r * secret) * pow(k, -1, N) % N
    if r == 0 or s == 0:
        return None
    if low_s and s > N // 2:
        s = N - s
    return (r, s)


def ecdsa_sign(secret, z):
    return ecdsa_sign_with_k(secret, z, rfc6979_k(secret, z))


def ecdsa_verify(pub, z, r, s):
    if not (isinstance(r, int) and isinstance(s, int)):
        return False
    if not (1 <= r < N and 1 <= s < N):
        return False
    if pub is None or not on_curve(pub):
        return False
    w = pow(s, -1, N)
    R = mul2(z * w % N, r * w % N, pub)
    if R is None:
        return False
    return R[0] % N == r


def _der_int(v):
    b = v.to_bytes((v.bit_length() + 7) // 8 or 1, "big")
    if b[0] & 0x80:
        b = b"\x00" + b
    return b"\x02" + bytes([len(b)]) + b


def der(r, s):
    body = _der_int(r) + _der_int(s)
    return b"\x30" + bytes([len(body)]) + body


def der_parse_strict(b):
    """BIP66 strict DER -> (r, s) or None"""
    if len(b) < 8 or len(b) > 72 or b[0] != 0x30 or b[1] != len(b) - 2:
        return None
    if b[2] != 2:
        return None
    lr = b[3]
    if lr == 0 or 5 + lr >= len(b):
        return None
    if b[4 + lr] != 2:
        return None
    ls = b[5 + lr]
    if ls == 0 or lr + ls + 6 != len(b):
        return None
    rb = b[4 : 4 + lr]
    sb = b[6 + lr :]
    for x in (rb, sb):
        if x[0] & 0x80:
            return None
        if len(x) > 1 and x[0] == 0 and not (x[1] & 0x80):
            return None
    return int.from_bytes(rb, "big"), int.from_bytes(sb, "big")


# -------------------------------------------------------------------- BIP340


def tagged_hash(tag, msg):
    t = hashlib.sha256(tag.encode() if isinstance(tag, str) else tag).digest()
    return hashlib.sha256(t + t + msg).digest()


def schnorr_sign(secret, msg, aux):
    d0 = secret
    if not 1 <= d0 < N:
        raise ValueError
    Pt = mul(d0)
    d = d0 if Pt[1] % 2 == 0 else N - d0
    t = (d ^ int.from_bytes(tagged_hash("BIP0340/aux", aux), "big")).to_bytes(32, "big")
    px = Pt[0].to_bytes(32, "big")
    k0 = int.from_bytes(tagged_hash("BIP0340/nonce", t + px + msg), "big") % N
    if k0 == 0:
        raise ValueError
    R = mul(k0)
    k = k0 if R[1] % 2 == 0 else N - k0
    rx = R[0].to_bytes(32, "big")
    e = int.from_bytes(tagged_hash("BIP0340/challenge", rx + px + msg), "big") % N
    return rx + ((k + e * d) % N).to_bytes(32, "big")


def schnorr_verify(pk, msg, sig):
    if len(pk) != 32 or len(sig) != 64:
        return False
    Pt = lift_x(int.from_bytes(pk, "big"))
    r = int.from_bytes(sig[:32], "big")
    s = int.from_bytes(sig[32:], "big")
    if Pt is None or r >= P or s >= N:
        return False
    e = int.from_bytes(tagged_hash("BIP0340/challenge", sig[:32] + pk + msg), "big") % N
    R = add(mul(s), mul(N - e, Pt))
    if R is None or R[1] % 2 != 0 or R[0] != r:
        return False
    return True


def xonly(pt):
    return pt[0].to_bytes(32, "big")


def selftest():
    assert on_curve(G) and mul(N) is None and mul(N - 1) == neg(G)
    assert mul(2) == add(G, G)
    assert mul(3) == add(mul(2), G)
    # RFC 6979 style vector (secp256k1, key 1, sha256("Satoshi Nakamoto")) -- widely published
    z = int.from_bytes(hashlib.sha256(b"Satoshi Nakamoto").digest(), "big")
    k = rfc6979_k(1, z)
    assert k == 0x8F8A276C19F4149656B280621E358CCE24F5F52542772691EE69063B74F15D15, hex(k)
    r, s = ecdsa_sign(1, z)
    assert r == 0x934B1EA10A4B3C1757E2B0C017D0B6143CE3C9A7E6A4A49860D7A6AB210EE3D8
    assert s == 0x2442CE9D2B916064108014783E923EC36B49743E2FFA1C4496F01A512AAFD9E5
    assert ecdsa_verify(mul(1), z, r, s)
    assert der_parse_strict(der(r, s)) == (r, s)
    # BIP340 test vectors 0 and 1
    sig = schnorr_sign(3, bytes(32), bytes(32))
    assert sig.hex().upper() == (
        "E907831F80848D1069A5371B402410364BDF1C5F8307B0084C55F1CE2DCA8215"
        "25F66A4A85EA8B71E482A74F382D2CE5EBEEE8FDB2172F477DF4900D310536C0"
    )
    assert schnorr_verify(xonly(mul(3)), bytes(32), sig)
    sk = 0xB7E151628AED2A6ABF7158809CF4F3C762E7160F38B4DA56A784D9045190CFEF
    msg = bytes.fromhex("243F6A8885A308D313198A2E03707344A4093822299F31D0082EFA98EC4E6C89")
    aux = (1).to_bytes(32, "big")
    sig = schnorr_sign(sk, msg, aux)
    assert sig.hex().upper() == (
        "6896BD60EEAE296DB48A229FF71DFE071BDE413E6D43F917DC8DCF8C78DE3341"
        "8906D11AC976ABCCB20B091292BFF4EA897EFCB639EA871CFA95F6DE339E4B0A"
    )
    assert schnorr_verify(xonly(mul(sk)), msg, sig)
    # vector 5: public key not on the curve
    assert not schnorr_verify(
        bytes.fromhex("EEFDEA4CDB677750A420FEE807EACF21EB9898AE79B9768766E4FAA04A2D4A34"),
        msg, sig)


_selftested = False


def ensure_selftest():
    global _selftested
    if not _selftested:
        selftest()
        _selftested = True
