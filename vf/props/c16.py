"""C16 multisig descriptors: checksum, round trip and address derivation are exact."""
import hashlib
import itertools

from hypothesis import strategies as st

from buidl.descriptor import P2WSHSortedMulti

from vf.core import Sub, attempt, must, require
from vf.ref import bip32, descsum as ref, ec

RULE = (
    "Wallets: 1 <= m <= n <= 6 key records, each an arbitrary valid extended public key (generated "
    "secret -> point by the reference curve code, generated chain code / depth 0..5 / parent "
    "fingerprint / child number), fingerprint, origin path of hardened and plain components in h or "
    "' notation, account index (edges 0, 1, 2^31-2), supplied under the standard or a SLIP-132 "
    "version, in a generated order; one network per wallet. text_checksum_roundtrip: text and "
    "checksum against the reference (Bitcoin Core's algorithm as a BCH long division), parse of the "
    "own text, all permutations of the records (n <= 4; sampled above). addresses: "
    "get_address(offset, is_change) for offsets {0, 1, 2^31-1} and uniform against the reference "
    "P2WSH of sortedmulti over reference BIP32 children, under record permutation, receive != change. "
    "substitution_detection: for a position drawn from a region (head, m, xfp, path, xpub, index, "
    "punctuation, checksum) ALL 94 other characters of the descriptor charset. Non-trivial: n >= 2 "
    "(text, addresses); every case (substitutions). All byte material is derived inside the strategy "
    "from a hash of the small control draws (Hypothesis' mutation-based generation otherwise "
    "collapses independent binary draws); the case record contains the derived values."
)
ASSUMPTIONS = [
    "a key record's extended key need not be the key at its origin path (descriptors do not and "
    "cannot check that): extended keys are generated directly, not derived from seeds",
    "account indexes are <= 2^31-2 so that the change branch (account index + 1) is not hardened; "
    "origin-path hardened markers are h or ' (what Bitcoin Core accepts), never H",
    "all key records of a wallet are on one network and have distinct keys; m <= n (the constructor "
    "itself does not check m <= n, only parse does: outside 'every valid m-of-n set')",
    "the order of key records in the text (sorted by normalised parent xpub string) is the library's "
    "documented behaviour and is asserted as such; Bitcoin Core has no canonical order",
    "the '#' separator is neither body nor checksum and is not substituted; substitutions replace "
    "one character by another character of the 95-character descriptor input charset",
]

HARD = bip32.HARD


def selftest():
    ref.selftest()
    ec.ensure_selftest()


class Stream:
    def __init__(self, seed):
        self.seed, self.ctr, self.buf = seed, 0, b""

    def take(self, n):
        while len(self.buf) < n:
            self.buf += hashlib.sha256(self.seed + self.ctr.to_bytes(8, "big")).digest()
            self.ctr += 1
        out, self.buf = self.buf[:n], self.buf[n:]
        return out

    def below(self, n):
        return int.from_bytes(self.take(8), "big") % n


def derived(controls, build):
    controls = dict(controls, nonce=st.integers(0, 2**32 - 1))

    def go(d):
        rnd = Stream(hashlib.sha256(repr(sorted(d.items())).encode()).digest())
        d.pop("nonce")
        return build(d, rnd)
    return st.fixed_dictionaries(controls).map(go)


# ------------------------------------------------------------------ wallets

PATH_INDEXES = [48, 0, 1, 2, 44, 84, 45, 2**31 - 1]
ACCOUNT_EDGES = [0, 0, 0, 1, 2, 2**31 - 2, 100]
STD = {"mainnet": "xpub", "testnet": "tpub"}
ALT = {"mainnet": ["ypub", "zpub", "Ypub", "Zpub"], "testnet": ["upub", "vpub", "Upub", "Vpub"]}
WALLET_CONTROLS = {
    "n": st.sampled_from([1, 2, 3, 4, 5, 6]), "m_r": st.sampled_from([0, 1, 2, 3, 4, 5]),
    "network": st.sampled_from(["mainnet", "testnet"]),
    "slip132": st.sampled_from(["none", "none", "some", "all"]),
    "accounts": st.sampled_from(["zero", "same", "same", "mixed"]),
    "notation": st.sampled_from(["h", "'", "mixed"]),
}


def mk_wallet(d, rnd, n=None):
    n = n or d["n"]
    net = d["network"]
    same_account = ACCOUNT_EDGES[rnd.below(len(ACCOUNT_EDGES))] if rnd.below(2) else rnd.below(2**31 - 1)
    records = []
    for _ in range(n):
        depth = rnd.below(6)
        comps, num = [], 0
        for _j in range(depth):
            idx = PATH_INDEXES[rnd.below(len(PATH_INDEXES))] if rnd.below(4) else rnd.below(2**31)
            hard = rnd.below(4) != 0
            mark = d["notation"] if d["notation"] != "mixed" else "h'"[rnd.below(2)]
            comps.append(f"{idx}{mark}" if hard else f"{idx}")
            num = idx + (HARD if hard else 0)
        if d["slip132"] == "all" or (d["slip132"] == "some" and rnd.below(2)):
            version = ALT[net][rnd.below(4)]
        else:
            version = STD[net]
        if d["accounts"] == "zero":
            account = 0
        elif d["accounts"] == "same":
            account = same_account
        else:
            account = ACCOUNT_EDGES[rnd.below(len(ACCOUNT_EDGES))] if rnd.below(2) else rnd.below(2**31 - 1)
        xfp = rnd.take(4).hex()
        if rnd.below(16) == 0:
            xfp = ("00000000", "ffffffff")[rnd.below(2)]
        records.append({
            "xfp": xfp, "path": "m" + "".join("/" + c for c in comps),
            "k": 1 + int.from_bytes(rnd.take(40), "big") % (ec.N - 1), "chain": rnd.take(32),
            "depth": depth, "fpr": rnd.take(4) if depth else bytes(4), "num": num,
            "version": version, "account": account,
        })
    keys = rnd.take(8)
    return {"m": 1 + d["m_r"] % n, "network": net, "records": records,
            "perm": sorted(range(n), key=lambda i: (keys[i], i))}


class Wallet:
    """reference view of a wallet case"""

    def __init__(self, w):
        self.m, self.network = w["m"], w["network"]
        self.n = len(w["records"])
        self.nodes, self.std, self.supplied = [], [], []
        for r in w["records"]:
            node = bip32.Node(None, ec.mul(r["k"]), bytes(r["chain"]), r["depth"], bytes(r["fpr"]),
                              r["num"])
            self.nodes.append(node)
            self.std.append(node.xpub(ref.XPUB_VERSION[self.network]))
            self.supplied.append(node.xpub(bytes.fromhex(ref.SLIP132[r["version"]][1])))
        self.records = w["records"]
        self.perm = list(w["perm"])
        assert len(set(self.std)) == self.n
        # the library's documented text order: by normalised parent xpub string
        self.order = sorted(range(self.n), key=lambda i: self.std[i])
        self.text = ref.sortedmulti_text(
            self.m, [(self.records[i]["xfp"], self.records[i]["path"][1:], self.std[i],
                      self.records[i]["account"]) for i in self.order])
        self.checksum = ref.descsum(self.text)
        self.full = self.text + "#" + self.checksum

    def key_records(self, order):
        return [{"xfp": self.records[i]["xfp"], "path": self.records[i]["path"],
                 "xpub_parent": self.supplied[i], "account_index": self.records[i]["account"]}
                for i in order]

    def expected_records(self):
        return [(self.records[i]["xfp"], self.records[i]["path"], self.std[i],
                 self.records[i]["account"]) for i in self.order]

    def address(self, offset, is_change):
        branches = [r["account"] + (1 if is_change else 0) for r in self.records]
        return ref.sortedmulti_address(self.m, self.nodes, branches, offset, self.network)


def lib_records(d):
    return [(kr.get("xfp"), kr.get("path"), kr.get("xpub_parent"), kr.get("account_index"))
            for kr in d.key_records]


def label_wallet(w, ctx):
    ctx.label(f"n={w.n}")
    ctx.label(f"m={w.m}")
    ctx.label("net:" + w.network)
    if any(r["version"] not in ("xpub", "tpub") for r in w.records):
        ctx.label("slip132")
    if any("'" in r["path"] for r in w.records):
        ctx.label("path:apostrophe")
    if any("h" in r["path"] for r in w.records):
        ctx.label("path:h")
    if any(r["path"] == "m" for r in w.records):
        ctx.label("path:empty")
    if len({r["account"] for r in w.records}) > 1:
        ctx.label("accounts_differ")
    if any(r["account"] == 2**31 - 2 for r in w.records):
        ctx.label("account=2^31-2")
    if w.perm != w.order:
        ctx.label("supplied_order!=text_order")


# --------------------------------------------------------- text / checksum / parse


def text_strategy(tier):
    def build(d, rnd):
        return {"w": mk_wallet(d, rnd), "no_checksum": d["no_checksum"]}
    return derived(dict(WALLET_CONTROLS, no_checksum=st.sampled_from([False, False, True])), build)


def check_text(case, ctx):
    w = Wallet(case["w"])
    label_wallet(w, ctx)
    ctx.nontrivial(w.n >= 2)
    d = must(P2WSHSortedMulti, "text/construct", w.m, w.key_records(w.perm))
    require(d.descriptor_text == w.text, "text/descriptor_text",
            f"got {d.descriptor_text!r} want {w.text!r}")
    require(d.checksum == w.checksum, "text/checksum_differs_from_core",
            f"{d.checksum} != {w.checksum} for {w.text!r}")
    require(str(d) == w.full and ref.descsum_check(str(d)), "text/str")
    require(d.quorum_m == w.m and d.quorum_n == w.n and d.network == w.network, "text/attributes",
            f"{d.quorum_m}-of-{d.quorum_n} {d.network}")
    require(lib_records(d) == w.expected_records(), "text/key_records",
            f"{lib_records(d)} != {w.expected_records()}")
    # every order of supply gives the same descriptor
    if w.n <= 4:
        orders = list(itertools.permutations(range(w.n)))
        ctx.label("all_permutations")
    else:
        orders = [tuple(w.perm[::-1]), tuple(w.order), tuple(w.order[::-1]),
                  tuple(w.perm[1:] + w.perm[:1]), tuple(range(w.n))]
    for o in orders:
        d2 = must(P2WSHSortedMulti, "text/construct", w.m, w.key_records(list(o)))
        require(str(d2) == w.full, "text/depends_on_supply_order", f"order {o}: {d2} != {w.full}")
        ctx.label("permutations")
    # the supplied checksum is verified by the constructor
    d3 = must(P2WSHSortedMulti, "text/construct_with_checksum", w.m, w.key_records(w.perm), w.checksum)
    require(str(d3) == w.full, "text/construct_with_checksum")
    # what a caller did earlier with the key-record helpers' results is his own business: the dictionaries
    # they return are edited here (as a coordinator deriving the change descriptor would), and parsing the
    # descriptor afterwards is unaffected
    from buidl.descriptor import parse_any_key_record, parse_full_key_record

    body = w.text[len("wsh(sortedmulti("):-2]
    for rec in body.split(",")[1:]:
        for fn in (parse_full_key_record, parse_any_key_record):
            st_, got = attempt(fn, rec)
            if st_ == "ok" and isinstance(got, dict):
                if isinstance(got.get("account_index"), int):
                    got["account_index"] += 1
                got["xfp"] = "00000000"
    ctx.label("key_record_dicts_edited_before_parse")
    # parse reproduces the descriptor
    p = must(P2WSHSortedMulti.parse, "text/parse_own_text", w.full)
    require(str(p) == w.full, "text/parse_roundtrip", f"{p} != {w.full}")
    require(p.descriptor_text == w.text and p.checksum == w.checksum, "text/parse_fields")
    require(lib_records(p) == w.expected_records(), "text/parse_key_records",
            f"{lib_records(p)} != {w.expected_records()}")
    require(p.quorum_m == w.m and p.quorum_n == w.n and p.network == w.network,
            "text/parse_attributes")
    if case["no_checksum"]:
        ctx.label("parse_without_checksum")
        p2 = must(P2WSHSortedMulti.parse, "text/parse_without_checksum", w.text)
        require(str(p2) == w.full, "text/parse_without_checksum_roundtrip")


# ------------------------------------------------------------------ addresses

OFFSET_EDGES = [0, 1, 2**31 - 1]


def addr_strategy(tier):
    def build(d, rnd):
        offs = [OFFSET_EDGES[d["edge"]] if d["edge"] < 3 else rnd.below(2**31)]
        if d["two"]:
            offs.append(rnd.below(2**31) if d["edge"] < 3 else rnd.below(1000))
        return {"w": mk_wallet(d, rnd), "offsets": offs, "via_parse": d["via_parse"]}
    return derived(dict(WALLET_CONTROLS, edge=st.integers(0, 5),
                        two=st.sampled_from([False, False, False, False, True]),
                        via_parse=st.sampled_from([False, False, False, True])), build)


def check_addr(case, ctx):
    w = Wallet(case["w"])
    label_wallet(w, ctx)
    ctx.nontrivial(w.n >= 2)
    d = must(P2WSHSortedMulti, "addr/construct", w.m, w.key_records(w.perm))
    if case["via_parse"]:
        ctx.label("via_parse")
        d = must(P2WSHSortedMulti.parse, "addr/parse", w.full)
    first = None
    for off in case["offsets"]:
        off = int(off)
        ctx.label("offset=%s" % ({0: "0", 1: "1", 2**31 - 1: "2^31-1"}.get(off, "other")))
        want_r, keys_r = w.address(off, False)
        want_c, keys_c = w.address(off, True)
        assert want_r != want_c
        got_r = must(d.get_address, "addr/receive", off, False)
        require(got_r == want_r, "addr/receive_address",
                f"{w.m}-of-{w.n} offset {off}: {got_r} != {want_r}")
        got_c = must(d.get_address, "addr/change", off, True)
        require(got_c == want_c, "addr/change_address",
                f"{w.m}-of-{w.n} offset {off}: {got_c} != {want_c}")
        require(got_r != got_c, "addr/receive_equals_change")
        if off == 0:
            require(must(d.get_address, "addr/default_arguments") == want_r, "addr/default_arguments")
        # child-key order vs parent-xpub order
        by_child = sorted(range(w.n), key=lambda i: keys_r[i])
        if by_child != w.order:
            ctx.label("child_order!=xpub_order")
        if first is None:
            first = (off, want_r)
    # another order of supply: same address
    other = w.perm[::-1] if w.n > 1 and w.perm[::-1] != w.perm else list(range(w.n))
    d2 = must(P2WSHSortedMulti, "addr/construct", w.m, w.key_records(other))
    got = must(d2.get_address, "addr/receive", first[0], False)
    require(got == first[1], "addr/depends_on_supply_order", f"{got} != {first[1]}")
    # the first descriptor object still answers the same after all of the above (and after its text was
    # taken)
    text = str(d)
    require(must(d.get_address, "addr/receive_again", first[0], False) == first[1],
            "addr/answer_depends_on_earlier_calls")
    require(str(d) == text, "addr/descriptor_text_changed_by_use")


# ------------------------------------------------------------ substitutions

REGIONS = ["head", "m", "xfp", "path", "xpub", "index", "punct", "checksum"]


def regions_of(w):
    """position lists per region of w.full (body + '#' + checksum)"""
    t = w.full
    reg = {r: [] for r in REGIONS}
    pos = 0
    head = "wsh(sortedmulti("
    assert t.startswith(head)
    reg["head"] += range(0, len(head))
    pos = len(head)
    mlen = len(str(w.m))
    reg["m"] += range(pos, pos + mlen)
    pos += mlen
    for i in w.order:
        r = w.records[i]
        assert t[pos] == ","
        reg["punct"].append(pos)
        pos += 1
        assert t[pos] == "["
        reg["punct"].append(pos)
        pos += 1
        reg["xfp"] += range(pos, pos + 8)
        pos += 8
        plen = len(r["path"]) - 1
        reg["path"] += range(pos, pos + plen)
        pos += plen
        assert t[pos] == "]"
        reg["punct"].append(pos)
        pos += 1
        xl = len(w.std[i])
        assert t[pos:pos + xl] == w.std[i]
        reg["xpub"] += range(pos, pos + xl)
        pos += xl
        il = len(f"/{r['account']}/*")
        reg["index"] += range(pos, pos + il)
        pos += il
    assert t[pos:pos + 3] == "))#"
    reg["punct"] += [pos, pos + 1]
    pos += 3
    reg["checksum"] += range(pos, pos + 8)
    assert pos + 8 == len(t)
    return reg


def subst_strategy(tier):
    def build(d, rnd):
        # mostly 1-key wallets: parse derives one BIP32 child (~45 ms here) per key record BEFORE it
        # compares checksums, so every alteration in or after the j-th record costs j derivations
        cheap = d["region"] in ("head", "m", "xpub", "punct")
        n = (1, 1, 1, 1, 2, 3)[rnd.below(6)] if cheap else (1, 1, 1, 1, 1, 2)[rnd.below(6)]
        return {"w": mk_wallet(d, rnd, n=n), "region": d["region"], "r": rnd.below(2**32)}
    controls = dict(WALLET_CONTROLS, region=st.sampled_from(REGIONS))
    controls.pop("n")
    return derived(controls, build)


def check_subst(case, ctx):
    w = Wallet(case["w"])
    ctx.nontrivial()
    ctx.label(f"n={w.n}")
    reg = regions_of(w)
    region = case["region"]
    if not reg[region]:
        region = "xfp"  # wallets whose origin paths are all empty
    ctx.label("region:" + region)
    p = reg[region][case["r"] % len(reg[region])]
    full = w.full
    assert full[p] != "#"
    must(P2WSHSortedMulti.parse, "subst/unaltered_text_rejected", full)
    for ch in ref.INPUT_CHARSET:
        if ch == full[p]:
            continue
        bad = full[:p] + ch + full[p + 1:]
        assert not ref.descsum_check(bad)
        st_, got = attempt(P2WSHSortedMulti.parse, bad)
        require(st_ == "exc" or not got, "subst/altered_character_accepted:" + region,
                f"position {p} {full[p]!r} -> {ch!r}: parse returned {got!r} for {bad!r}")
        ctx.label("substitutions")


SUBS = [
    Sub("text_checksum_roundtrip", check_text, strategy=text_strategy,
        budget={"quick": 240, "thorough": 6000},
        required=[f"n={n}" for n in range(1, 7)] + ["net:mainnet", "net:testnet", "slip132",
                                                     "path:apostrophe", "path:h", "path:empty",
                                                     "accounts_differ", "supplied_order!=text_order",
                                                     "all_permutations", "parse_without_checksum"],
        nontrivial_rule="n >= 2"),
    Sub("addresses", check_addr, strategy=addr_strategy,
        budget={"quick": 100, "thorough": 3000},
        required=[f"n={n}" for n in range(1, 7)] + ["offset=0", "offset=1", "offset=2^31-1",
                                                     "offset=other", "child_order!=xpub_order",
                                                     "slip132", "via_parse", "accounts_differ"],
        nontrivial_rule="n >= 2"),
    Sub("substitution_detection", check_subst, strategy=subst_strategy,
        budget={"quick": 100, "thorough": 3000},
        required=["region:" + r for r in REGIONS],
        nontrivial_rule="one case = all 94 other characters at one position of one descriptor"),
]
