"""C13 MuSig aggregation yields valid BIP340 signatures; k-of-n trees cover all subsets."""
from itertools import combinations

from hypothesis import strategies as st

from buidl.pecc import PrivateKey, S256Point
from buidl.script import Script
from buidl.taproot import MuSigTapScript, TapRootMultiSig
from buidl.tx import Tx, TxIn, TxOut
from buidl.witness import Witness

from vf import gen
from vf.core import Discard, Sub, attempt, must, require
from vf.ref import ec, taproot as rt

N = ec.N
RULE = (
    "musig_valid: 2..5 distinct secrets (mixed parities), nonce pairs in [1,n-1], 32-byte message, with "
    "and without merkle root; the protocol is run through the library and the result is verified by an "
    "independent BIP340 verifier under the aggregate (or tweaked) x-only key; every permutation of the "
    "participant list gives the same aggregate key. musig_incomplete: one partial omitted or altered. "
    "trees_cover_subsets: all (k,n), 1<=k<=n<=5: leaves <-> k-subsets bijection for both tree kinds and "
    "a generated subset's leaf spend verifies. Non-trivial: every case."
)
ASSUMPTIONS = [
    "the aggregate key is the library's own KeyAgg (tagged 'KeyAgg list'/'KeyAgg coefficient', second key "
    "coefficient 1); the property only demands BIP340 validity under that key and order independence, the "
    "reference re-computes the same aggregation independently for the tree bijection",
    "private keys are instantiated with public points computed by the reference implementation",
]


def selftest():
    rt.selftest()


def fast_priv(secret):
    p = PrivateKey.__new__(PrivateKey)
    p.secret = secret
    p.point = S256Point(*ec.mul(secret))
    p.network = "mainnet"
    p.compressed = True
    return p


def pt(p):
    return S256Point(p[0], p[1])


def ref_keyagg(xonlys):
    xs = sorted(xonlys)
    commitment = ec.tagged_hash("KeyAgg list", b"".join(xs))
    acc = None
    for i, x in enumerate(xs):
        c = 1 if i == 1 else int.from_bytes(ec.tagged_hash("KeyAgg coefficient", commitment + x), "big")
        acc = ec.add(acc, ec.mul(c, ec.lift_x(int.from_bytes(x, "big"))))
    return acc


def musig_cases(tier):
    return st.integers(2, 5).flatmap(lambda n: st.fixed_dictionaries({
        "secrets": st.lists(gen.uniform_int(1, N - 1), min_size=n, max_size=n, unique=True),
        "nonces": st.lists(st.tuples(gen.secrets(), gen.secrets()), min_size=n, max_size=n),
        "msg": gen.b32(),
        "root": st.one_of(st.none(), gen.rand_bytes(32)),
        "perm": st.permutations(list(range(n))),
        "fault": st.sampled_from(["omit", "alter", "alter_small", "swap_nonce_share", "double"]),
        "who": st.integers(0, n - 1),
        "delta": gen.uniform_int(1, N - 1),
    }))


def run_musig(case, ctx, fault=None):
    secrets = case["secrets"]
    n = len(secrets)
    privs = [fast_priv(s) for s in secrets]
    musig = MuSigTapScript([p.point for p in privs])
    msg = case["msg"]
    root = case["root"] or b""
    nonce_secrets = [tuple(k) for k in case["nonces"]]
    if sum(k[0] for k in nonce_secrets) % N == 0 or sum(k[1] for k in nonce_secrets) % N == 0:
        # honest participants draw nonces at random: an aggregate nonce at infinity has
        # probability 2^-256 and only arises from the edge values mixed into the generator
        raise Discard("aggregate nonce at infinity")
    nonce_points = [(pt(ec.mul(k1)), pt(ec.mul(k2))) for k1, k2 in nonce_secrets]
    sums = musig.nonce_sums(nonce_points)
    r = musig.compute_r(sums, msg)
    if r.x is None:
        raise Discard("R at infinity")
    partials = []
    for priv, ks in zip(privs, nonce_secrets):
        k = musig.compute_k(ks, sums, msg)
        partials.append(musig.sign(priv, k, r, msg, root))
    if fault == "omit":
        del partials[case["who"] % n]
    elif fault == "alter":
        partials[case["who"] % n] = (partials[case["who"] % n] + case["delta"]) % N
    elif fault == "alter_small":
        partials[case["who"] % n] = (partials[case["who"] % n] + 1) % N
    elif fault == "double":
        partials.append(partials[case["who"] % n])
    elif fault == "swap_nonce_share":
        # participant signs with a nonce share that was not the one committed to
        i = case["who"] % n
        k = musig.compute_k((nonce_secrets[i][1], nonce_secrets[i][0]), sums, msg)
        if nonce_secrets[i][0] == nonce_secrets[i][1]:
            raise Discard("equal nonce shares")
        partials[i] = musig.sign(privs[i], k, r, msg, root)
    return musig, r, partials, root, msg


def agg_key(musig, root):
    agg = (musig.point.x.num, musig.point.y.num)
    if root:
        par, Q = rt.tweak_pubkey(agg, root)
        return agg, Q, par
    return agg, ec.lift_x(agg[0]), 0


def check_musig(case, ctx):
    ctx.nontrivial()
    musig, r, partials, root, msg = run_musig(case, ctx)
    agg, Q, par = agg_key(musig, root)
    ctx.label(f"agg_parity={agg[1] & 1},R_parity={r.parity},tweaked={'no' if not root else par}")
    ctx.label(f"n={len(case['secrets'])}")
    ctx.label("tweaked" if root else "plain")
    parities = {ec.mul(s)[1] & 1 for s in case["secrets"]}
    if len(parities) == 2:
        ctx.label("mixed_key_parities")
    # the aggregate key equals the independently computed aggregation and is order independent
    want_agg = ref_keyagg([ec.xonly(ec.mul(s)) for s in case["secrets"]])
    require(agg == want_agg, "musig/aggregate_key", f"{ec.sec(agg).hex()} vs {ec.sec(want_agg).hex()}")
    perm = [case["secrets"][i] for i in case["perm"]]
    m2 = MuSigTapScript([pt(ec.mul(s)) for s in perm])
    require((m2.point.x.num, m2.point.y.num) == agg, "musig/aggregate_depends_on_order")
    require(m2.commands == musig.commands, "musig/script_depends_on_order")
    st_, sig = attempt(musig.get_signature, sum(partials), r, msg, root)
    require(st_ == "ok", "musig/complete_set_rejected", f"{type(sig).__name__}: {sig}")
    raw = sig.serialize()
    require(ec.schnorr_verify(ec.xonly(Q), msg, raw), "musig/aggregate_signature_invalid_under_bip340",
            f"key={ec.xonly(Q).hex()} msg={msg.hex()} sig={raw.hex()}")
    # a second session on the SAME MuSigTapScript object (other message, nonce pairs swapped, the other
    # tweak mode): nothing may be carried over from the first one
    import hashlib

    msg2 = hashlib.sha256(msg).digest()
    root2 = b"" if root else hashlib.sha256(b"r" + msg).digest()
    privs = [fast_priv(s) for s in case["secrets"]]
    ks2 = [(k2, k1) for k1, k2 in (tuple(k) for k in case["nonces"])]
    if sum(k[0] for k in ks2) % N == 0 or sum(k[1] for k in ks2) % N == 0:
        return
    sums2 = musig.nonce_sums([(pt(ec.mul(a)), pt(ec.mul(b))) for a, b in ks2])
    r2 = musig.compute_r(sums2, msg2)
    if r2.x is None:
        return
    parts2 = [musig.sign(p, musig.compute_k(kk, sums2, msg2), r2, msg2, root2) for p, kk in zip(privs, ks2)]
    st_, sig2 = attempt(musig.get_signature, sum(parts2), r2, msg2, root2)
    require(st_ == "ok", "musig/second_session_on_same_object_rejected", f"{type(sig2).__name__}: {sig2}")
    _, Q2, _ = agg_key(musig, root2)
    require(ec.schnorr_verify(ec.xonly(Q2), msg2, sig2.serialize()),
            "musig/second_session_signature_invalid_under_bip340")
    ctx.label("second_session")


def check_incomplete(case, ctx):
    ctx.nontrivial()
    fault = case["fault"]
    ctx.label("fault:" + fault)
    musig, r, partials, root, msg = run_musig(case, ctx, fault=fault)
    _, Q, _ = agg_key(musig, root)
    st_, sig = attempt(musig.get_signature, sum(partials), r, msg, root)
    if st_ == "exc":
        ctx.label("raised")
        return
    raw = sig.serialize()
    require(not ec.schnorr_verify(ec.xonly(Q), msg, raw), f"musig/incomplete_set_yields_valid_signature:{fault}",
            f"sig={raw.hex()}")
    require(False, f"musig/incomplete_set_not_refused:{fault}", "get_signature returned an invalid signature")


# ------------------------------------------------------------------------- trees

KN = [(k, n) for n in range(1, 6) for k in range(1, n + 1)]


WARMUPS = ["single_leaf", "multi_leaf_tree", "musig_tree", "musig_and_single_leaf_tree", "everything_tree",
           "degrading_blocks", "degrading_time"]


def tree_cases(tier):
    return st.sampled_from(KN).flatmap(lambda kn: st.fixed_dictionaries({
        "k": st.just(kn[0]), "n": st.just(kn[1]),
        "secrets": st.lists(gen.uniform_int(1, N - 1), min_size=kn[1], max_size=kn[1], unique=True),
        "subset": st.permutations(list(range(kn[1]))).map(lambda p: sorted(p[: kn[0]])),
        "kind": st.sampled_from(["multi_leaf", "musig"]),
        # other tree builders called on the SAME TapRootMultiSig object first (results discarded)
        "warmup": st.lists(st.sampled_from(WARMUPS), min_size=0, max_size=3),
        # signature-hash type of each signer of a k-of-n leaf (all default in two cases out of three)
        "tap_hts": st.one_of(st.just([0]), st.just([0]),
                             st.lists(st.sampled_from([0, 1, 2, 3, 0x81, 0x82, 0x83]), min_size=5, max_size=5)),
        "nonces": st.lists(st.tuples(gen.secrets(), gen.secrets()), min_size=kn[0], max_size=kn[0]),
        "amount": st.integers(1000, 2**40), "version": st.sampled_from([1, 2]),
    }))


def leaf_keys(leaf):
    return [c for c in leaf.tap_script.commands if isinstance(c, bytes) and len(c) == 32]


def check_trees(case, ctx):
    k, n, kind = case["k"], case["n"], case["kind"]
    if kind == "musig" and k < 2:
        raise Discard("MuSig aggregate undefined for a single key")
    ctx.nontrivial()
    ctx.label(f"{kind}:k={k},n={n}")
    privs = [fast_priv(s) for s in case["secrets"]]
    xs = [p.point.xonly() for p in privs]
    trm = must(TapRootMultiSig, "trees/constructor", [p.point for p in privs], k)
    subsets = [frozenset(c) for c in combinations(xs, k)]
    for wu in case.get("warmup", []):
        ctx.label("warmup:" + wu)
        if wu == "degrading_blocks":
            attempt(trm.degrading_multisig_tree, sequence_block_interval=18)
        elif wu == "degrading_time":
            attempt(trm.degrading_multisig_tree, sequence_time_interval=512 * 7)
        elif k >= 2 or "musig" not in wu and wu != "everything_tree":
            attempt(getattr(trm, wu))
    if kind == "multi_leaf":
        tree = must(trm.multi_leaf_tree, "trees/multi_leaf_tree")
        leaves = tree.leaves()
        got = [frozenset(leaf_keys(lf)) for lf in leaves]
        require(len(got) == len(subsets), "trees/leaf_count", f"{len(got)} vs {len(subsets)}")
        require(len(set(got)) == len(got), "trees/duplicate_leaf")
        require(set(got) == set(subsets), "trees/leaves_do_not_cover_subsets")
        for lf in leaves:
            ks = leaf_keys(lf)
            require(ks == sorted(ks) and len(ks) == k, "trees/leaf_key_order")
    else:
        tree = must(trm.musig_tree, "trees/musig_tree")
        leaves = tree.leaves()
        want = {ec.xonly(ref_keyagg(list(s))): s for s in subsets}
        got = [leaf_keys(lf)[0] for lf in leaves]
        require(len(got) == len(subsets) and len(set(got)) == len(got), "trees/leaf_count")
        require(set(got) == set(want), "trees/musig_leaves_do_not_match_subsets")
    # spend the leaf owned by the generated subset
    chosen = [privs[i] for i in case["subset"]]
    chosen_x = frozenset(p.point.xonly() for p in chosen)
    internal = trm.default_internal_pubkey
    if kind == "multi_leaf":
        leaf = [lf for lf in leaves if frozenset(leaf_keys(lf)) == chosen_x][0]
    else:
        leaf = [lf for lf in leaves if leaf_keys(lf)[0] == ec.xonly(ref_keyagg(list(chosen_x)))][0]
    cb = tree.control_block(internal, leaf)
    require(cb is not None, "trees/no_control_block_for_leaf")
    spk = internal.p2tr_script(tree.hash())
    tin = TxIn(b"\x22" * 32, 1, Script(), 0xFFFFFFFE)
    tin._value = case["amount"]
    tin._script_pubkey = spk
    tx = Tx(case["version"], [tin], [TxOut(case["amount"] - 500, Script([0x51, b"\x01" * 32]))], 0,
            segwit=True)
    if kind == "multi_leaf":
        from buidl.taproot import MultiSigTapScript

        ts = MultiSigTapScript([p.point for p in chosen], k)
        require(ts.commands == leaf.tap_script.commands, "trees/leaf_script_mismatch")
        others = [lf for lf in leaves if lf is not leaf]
        if others and case["amount"] % 2:
            # the input was first prepared for ANOTHER subset's leaf, then the witness was cleared and the
            # input prepared again for this one (a wallet offering the spend to one group after another)
            other = others[case["amount"] % len(others)]
            xs_other = leaf_keys(other)
            ts_other = MultiSigTapScript([p.point for p in privs if p.point.xonly() in xs_other], k)
            tx.initialize_p2tr_multisig(0, tree.control_block(internal, other), ts_other)
            tin.witness.items = []
            ctx.label("input_prepared_for_another_leaf_first")
        tx.initialize_p2tr_multisig(0, cb, ts)
        hts = list(case.get("tap_hts", []))[: len(chosen)] or [0]
        if len(set(hts)) >= 2:
            ctx.label("cosigners_use_different_sighash_types")
        sigs = [tx.get_sig_taproot(0, p, ext_flag=1, hash_type=hts[i % len(hts)]) for i, p in enumerate(chosen)]
        ok = tx.finalize_p2tr_multisig(0, sigs)
        require(ok is True, "trees/subset_spend_rejected_by_finalize")
    else:
        musig = MuSigTapScript([p.point for p in chosen])
        require(musig.commands == leaf.tap_script.commands, "trees/leaf_script_mismatch")
        tin.witness = Witness([leaf.tap_script.raw_serialize(), cb.serialize()])
        msg = tx.sig_hash(0, 0)
        ks = [tuple(x) for x in case["nonces"]]
        sums = musig.nonce_sums([(pt(ec.mul(a)), pt(ec.mul(b))) for a, b in ks])
        if any(s.x is None for s in sums):
            raise Discard("a nonce sum at infinity (the participants' nonces cancel): outside the scheme")
        r = musig.compute_r(sums, msg)
        if r.x is None:
            raise Discard("R at infinity")
        partials = [musig.sign(p, musig.compute_k(kk, sums, msg), r, msg) for p, kk in zip(chosen, ks)]
        sig = must(musig.get_signature, "trees/musig_leaf_signature", sum(partials), r, msg)
        tin.witness.items.insert(0, sig.serialize())
    st_, ok = attempt(tx.verify_input, 0)
    require(st_ == "ok" and ok is True, f"trees/{kind}:subset_leaf_spend_does_not_verify", f"{st_}:{ok!r} k={k} n={n}")


SUBS = [
    Sub("musig_valid", check_musig, strategy=musig_cases, budget={"quick": 260, "thorough": 8000},
        required=[f"agg_parity={a},R_parity={b},tweaked={c}" for a in (0, 1) for b in (0, 1)
                  for c in ("no", 0, 1)] + ["mixed_key_parities", "n=2", "n=5"]),
    Sub("musig_incomplete", check_incomplete, strategy=musig_cases, budget={"quick": 200, "thorough": 6000},
        required=["fault:" + f for f in ("omit", "alter", "alter_small", "swap_nonce_share", "double")]),
    Sub("trees_cover_subsets", check_trees, strategy=tree_cases, budget={"quick": 250, "thorough": 5000},
        required=[f"multi_leaf:k={k},n={n}" for k, n in KN] + [f"musig:k={k},n={n}" for k, n in KN if k >= 2]
        + ["warmup:" + w for w in WARMUPS] + ["cosigners_use_different_sighash_types"]),
]
