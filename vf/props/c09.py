"""C09 address and key text encodings: Base58Check, WIF, extended keys, Bech32/Bech32m, addresses."""
import hashlib
from io import BytesIO

from hypothesis import strategies as st

from buidl.bech32 import decode_bech32, encode_bech32_checksum
from buidl.hd import HDPrivateKey, HDPublicKey
from buidl.helper import decode_base58, encode_base58_checksum, raw_decode_base58
from buidl.pecc import PrivateKey
from buidl.script import (
    P2PKHScriptPubKey,
    P2SHScriptPubKey,
    P2TRScriptPubKey,
    P2WPKHScriptPubKey,
    P2WSHScriptPubKey,
    RedeemScript,
    ScriptPubKey,
    WitnessScript,
    address_to_script_pubkey,
)
from buidl.tx import TxOut

from vf import gen
from vf.core import HarnessError, Sub, Violation, attempt, must, require
from vf.ref import bech32 as rb
from vf.ref import bip32 as r32
from vf.ref import ec

RULE = (
    "base58check: payloads 0..82 bytes with leading-zero runs, encoded by an independent Base58Check "
    "reference, then text mutations (substitute/swap/insert/delete/leading-1 surgery/checksum bytes "
    "altered before encoding) decided by the reference decoder; wif: secrets x compression x 4 "
    "networks; extended_keys: reference BIP32 serialisations under all 20 SLIP-132 versions; "
    "segwit_grid: EXHAUSTIVE versions 0..16 x lengths 2..40 x 4 networks with 3 program patterns; "
    "segwit_random: random programs on the same grid (both also: address_to_script_pubkey refuses "
    "the address or returns exactly OP_v <program>); substitution_detection: per sampled address "
    "EVERY single substitution at every data-part position (31 x len) plus sampled double "
    "substitutions against 3 decoding entry points; script_address_bijection: 5 templates x 4 "
    "networks against reference addresses, both directions. Non-trivial: base58 payload with a "
    "leading zero byte or a mutation, segwit program that needs padding bits (length % 5 != 0) or "
    "version >= 1, every substitution/bijection/wif/extended-key case."
)
ASSUMPTIONS = [
    "strings the specs reject but the property statement does not mention (witness version 17..31, "
    "non-zero padding bits, upper-case, wrong Base58 version byte / payload length in "
    "address_to_script_pubkey) are not asserted; version > 16 is only counted under 'observed:*'",
    "decode_bech32 reports 'testnet' for signet addresses (identical HRP 'tb'): the decoded network "
    "is compared through its HRP",
    "PrivateKey.parse documents that non-mainnet networks are not distinguished: the parsed network "
    "is compared as mainnet / not-mainnet; WIF compression is selected with the explicit "
    "wif(compressed=...) argument (wif() does not consult PrivateKey.compressed)",
    "TxOut.to_address has no regtest bech32 branch (design limitation): for regtest segwit addresses "
    "it may raise, but must never return a different script",
]

NETWORKS = ["mainnet", "testnet", "signet", "regtest"]
NET_OF_HRP = {"bc": "mainnet", "tb": "testnet", "bcrt": "regtest"}
B58 = r32.B58
CH = rb.CHARSET


def selftest():
    r32.ensure_selftest()
    rb.ensure_selftest()
    # WIF vector (Bitcoin wiki) as a self-test of the reference composition used below
    sec = int("0C28FCA386C7A227600B2FE50B7CAE11EC86D3BF1FBE471BE89827E19D72AA1D", 16)
    assert ref_wif(sec, False, "mainnet") == "5HueCGU8rMjxEXxiPuD5BDku4MkFqeZyd4dZ1jvhTVqvbTLvyTJ"
    assert ref_wif(sec, True, "mainnet") == "KwdMAjGmerYanjeui5SHS7JkmpZvVipYvB2LJGU1ZxJwYvP98617"
    # P2PKH / P2SH vectors (BIP13 / BIP173 examples)
    assert ref_address("p2pkh", bytes.fromhex("751e76e8199196d454941c45d1b3a323f1433bd6"),
                       "mainnet") == "1BgGZ9tcN4rm9KBzDn7KprQz87SZ26SAMH"
    assert ref_address("p2wpkh", bytes.fromhex("751e76e8199196d454941c45d1b3a323f1433bd6"),
                       "mainnet") == "bc1qw508d6qejxtdg4y5r3zarvary0c5xw7kv8f3t4"
    assert ref_address("p2sh", r32.hash160(bytes.fromhex(
        "5141042f90074d7a5bf30c72cf3a8dfd1381bdbd30407010e878f3a11269d5f74a58788505cdca22ea6eab7cfb40"
        "dc0e07aba200424ab0d79122a653ad0c7ec9896bdf51ae")), "mainnet") == \
        "3P14159f73E4gFr7JterCCQh9QjiTjiZrG"


# ============================================================== base58check

B58_MUT = ["none", "subst", "subst_bad_char", "swap", "insert", "delete", "prepend1", "strip1",
           "append", "cksum_byte", "cksum_other", "drop_payload_byte", "short"]
PAYLOAD_LENS = [0, 1, 2, 3, 4, 5, 20, 21, 25, 32, 33, 34, 37, 38, 74, 77, 78, 79, 81, 82]
BAD_CHARS = "0OIl +/_-=\t"
SHORT_STRINGS = ["", "1", "11", "111", "1111", "11111", "2", "z", "12", "zzzz", "3QJmnh"]


def payloads():
    lengths = st.one_of(st.sampled_from(PAYLOAD_LENS), st.sampled_from(range(83)))
    body = lengths.flatmap(lambda n: st.binary(min_size=n, max_size=n))
    run = st.one_of(st.just(0), st.sampled_from(range(9)))

    def overlay(t):
        z, b = t
        # a run of z leading zero bytes followed by a non-zero byte (when the payload is long enough)
        if z and len(b) > z:
            return b"\x00" * z + bytes([b[z] or 1]) + b[z + 1:]
        return b

    return st.one_of(
        st.tuples(run, body).map(overlay),
        st.tuples(run, body).map(overlay),
        st.tuples(run, body).map(overlay),
        st.sampled_from([b"\xff" * 21, b"\x00" * 21, b"\x00", b"\x00" * 4, b"\x00" * 78,
                         b"\x80" + b"\xff" * 32, b"\xff" * 82]),
    )


def b58_strategy(tier):
    return st.fixed_dictionaries(
        {
            "payload": payloads(),
            "other": st.binary(max_size=40),
            "mut": st.sampled_from(B58_MUT),
            "pos": st.integers(0, 10**6),
            "ch": st.integers(0, 10**6),
            "k": st.integers(1, 4),
            "short": st.sampled_from(SHORT_STRINGS),
        }
    )


def mutate_b58(case, enc):
    """-> mutated text (may be equal to enc: then it is simply a valid string)"""
    mut, payload = case["mut"], bytes(case["payload"])
    n = len(enc)
    pos = case["pos"] % n
    c = case["ch"]
    if mut == "none":
        return enc
    if mut == "subst":
        cur = B58.index(enc[pos])
        return enc[:pos] + B58[(cur + 1 + c % 57) % 58] + enc[pos + 1:]
    if mut == "subst_bad_char":
        return enc[:pos] + BAD_CHARS[c % len(BAD_CHARS)] + enc[pos + 1:]
    if mut == "swap":
        if n < 2:
            return enc
        p = case["pos"] % (n - 1)
        return enc[:p] + enc[p + 1] + enc[p] + enc[p + 2:]
    if mut == "insert":
        p = case["pos"] % (n + 1)
        return enc[:p] + B58[c % 58] + enc[p:]
    if mut == "delete":
        return enc[:pos] + enc[pos + 1:]
    if mut == "prepend1":
        return "1" * case["k"] + enc
    if mut == "strip1":
        return enc[1:] if enc.startswith("1") else enc[:-1]
    if mut == "append":
        return enc + B58[c % 58]
    if mut == "cksum_byte":
        ck = bytearray(r32.sha256d(payload)[:4])
        ck[case["pos"] % 4] ^= 1 + c % 255
        return r32.b58encode(payload + bytes(ck))
    if mut == "cksum_other":
        return r32.b58encode(payload + r32.sha256d(bytes(case["other"]))[:4])
    if mut == "drop_payload_byte":
        return r32.b58encode(payload[:-1] + r32.sha256d(payload)[:4])
    if mut == "short":
        return case["short"]
    raise AssertionError(mut)


def check_b58(case, ctx):
    payload = bytes(case["payload"])
    mut = case["mut"]
    ctx.label("mut:" + mut)
    lz = len(payload) - len(payload.lstrip(b"\x00"))
    if len(payload) == 0:
        ctx.label("payload_empty")
    if lz:
        ctx.label("leading_zero_bytes")
    if lz >= 2:
        ctx.label("leading_zero_run>=2")
    if payload and lz == len(payload):
        ctx.label("payload_all_zero")
    if len(payload) >= 78:
        ctx.label("payload>=78")
    ctx.nontrivial(lz > 0 or mut != "none")
    want = r32.b58check_encode(payload)
    enc = must(encode_base58_checksum, "b58/encode", payload)
    require(enc == want, "b58/encode_differs", f"payload={payload.hex()} got={enc} want={want}")
    back = must(raw_decode_base58, "b58/decode_of_valid", enc)
    require(back == payload, "b58/decode_does_not_invert",
            f"payload={payload.hex()} text={enc} got={bytes(back).hex()}")
    back1 = must(decode_base58, "b58/decode_base58_of_valid", enc)
    require(back1 == payload[1:], "b58/decode_base58_differs", f"payload={payload.hex()}")
    text = mutate_b58(case, enc)
    ref = r32.b58check_decode(text)
    st_, got = attempt(raw_decode_base58, text)
    if ref is None:
        ctx.label("ref_rejects")
        require(st_ == "exc" or got is None, f"b58/accepts_bad_checksum:{mut}",
                f"text={text!r} (from payload {payload.hex()}) -> {got!r}")
    else:
        ctx.label("ref_accepts")
        require(st_ == "ok" and got == ref, f"b58/rejects_or_misdecodes_valid:{mut}",
                f"text={text!r} want={ref.hex()} got={st_}:{got!r}")
    st2, got2 = attempt(decode_base58, text)
    if ref is None:
        # decode_base58 strips the version byte: an empty result is falsy; anything else is 'accept'
        require(st2 == "exc" or got2 is None, f"b58/decode_base58_accepts_bad_checksum:{mut}",
                f"text={text!r}")
    else:
        require(st2 == "ok" and got2 == ref[1:], f"b58/decode_base58_rejects_valid:{mut}",
                f"text={text!r}")


# ====================================================================== WIF


def ref_wif(secret, compressed, network):
    prefix = b"\x80" if network == "mainnet" else b"\xef"
    return r32.b58check_encode(prefix + secret.to_bytes(32, "big") + (b"\x01" if compressed else b""))


def wif_strategy(tier):
    return st.fixed_dictionaries(
        {"secret": gen.secrets(), "network": st.sampled_from(NETWORKS),
         "pos": st.integers(0, 10**6), "ch": st.integers(0, 56)}
    )


def check_wif(case, ctx):
    secret, network = case["secret"], case["network"]
    ctx.nontrivial()
    ctx.label("net:" + network)
    if secret < 2**248:
        ctx.label("secret_with_leading_zero_byte")
    key = PrivateKey(secret, network=network)
    for compressed in (True, False):
        ctx.label("compressed" if compressed else "uncompressed")
        want = ref_wif(secret, compressed, network)
        got = must(key.wif, "wif/encode", compressed)
        require(got == want, "wif/encode_differs",
                f"secret={secret:x} net={network} compressed={compressed} got={got} want={want}")
        back = must(PrivateKey.parse, "wif/parse_of_valid", got)
        require(back.secret == secret, "wif/secret_not_inverted", f"{got}")
        require(bool(back.compressed) == compressed, "wif/compression_not_inverted", f"{got}")
        require((back.network == "mainnet") == (network == "mainnet"), "wif/network_not_inverted",
                f"{got} -> {back.network}")
        require(back.wif(compressed=back.compressed) == got, "wif/reencode_differs", got)
    # one substituted character: checksum must catch it (only the cheap uncompressed parse path is
    # not an issue: a rejected string never reaches the EC multiplication)
    text = ref_wif(secret, True, network)
    pos = case["pos"] % len(text)
    cur = B58.index(text[pos])
    bad = text[:pos] + B58[(cur + 1 + case["ch"]) % 58] + text[pos + 1:]
    if r32.b58check_decode(bad) is None:
        st_, got = attempt(PrivateKey.parse, bad)
        require(st_ == "exc", "wif/accepts_substituted", f"{bad}")
        ctx.label("substituted_rejected")


# ============================================================ extended keys

XPRV_VERSIONS = ["0488ade4", "049d7878", "04b2430c", "0295b005", "02aa7a99",
                 "04358394", "044a4e28", "045f18bc", "024285b5", "02575048"]
XPUB_VERSIONS = ["0488b21e", "049d7cb2", "04b24746", "0295b43f", "02aa7ed3",
                 "043587cf", "044a5262", "045f1cf6", "024289ef", "02575483"]


def xkey_strategy(tier):
    return st.fixed_dictionaries(
        {
            "secret": gen.secrets(),
            "chain": gen.b32(),
            "depth": st.one_of(st.sampled_from([0, 1, 127, 128, 255]), st.integers(0, 255)),
            "fpr": st.one_of(st.just(bytes(4)), st.binary(min_size=4, max_size=4)),
            "num": st.one_of(st.sampled_from([0, 1, 2**31 - 1, 2**31, 2**32 - 1]),
                             st.integers(0, 2**32 - 1)),
            "vi": st.sampled_from(range(10)),
            "private": st.booleans(),
            "pos": st.integers(0, 10**6), "ch": st.integers(0, 56),
        }
    )


def check_xkey(case, ctx):
    ctx.nontrivial()
    secret = case["secret"]
    private = case["private"]
    node = r32.Node(secret, ec.mul(secret), bytes(case["chain"]), case["depth"], bytes(case["fpr"]),
                    case["num"])
    if private:
        ver = bytes.fromhex(XPRV_VERSIONS[case["vi"]])
        raw, text = node.raw_prv(ver), node.xprv(ver)
        parse = HDPrivateKey.parse
        ctx.label("xprv")
    else:
        ver = bytes.fromhex(XPUB_VERSIONS[case["vi"]])
        raw, text = node.raw_pub(ver), node.xpub(ver)
        parse = HDPublicKey.parse
        ctx.label("xpub")
    ctx.label("version:" + ver.hex())
    if secret < 2**248:
        ctx.label("secret_with_leading_zero_byte")
    require(must(encode_base58_checksum, "xkey/b58encode", raw) == text, "xkey/b58_encode_differs",
            raw.hex())
    require(must(raw_decode_base58, "xkey/b58decode", text) == raw, "xkey/b58_decode_differs", text)
    obj = must(parse, "xkey/parse_of_valid", text)
    again = must(obj.xprv if private else obj.xpub, "xkey/serialise")
    require(again == text, "xkey/text_roundtrip_differs", f"in={text} out={again}")
    require(obj.depth == case["depth"] and obj.child_number == case["num"]
            and obj.parent_fingerprint == bytes(case["fpr"]) and obj.chain_code == bytes(case["chain"]),
            "xkey/fields_differ", text)
    if private:
        require(obj.private_key.secret == secret, "xkey/secret_differs", text)
    else:
        require(obj.point.sec() == ec.sec(node.K), "xkey/point_differs", text)
    pos = case["pos"] % len(text)
    cur = B58.index(text[pos])
    bad = text[:pos] + B58[(cur + 1 + case["ch"]) % 58] + text[pos + 1:]
    if r32.b58check_decode(bad) is None:
        st_, _ = attempt(parse, bad)
        require(st_ == "exc", "xkey/accepts_substituted", bad)
        ctx.label("substituted_rejected")


# ========================================================= segwit addresses


def _pattern_program(version, length, network, i):
    if i == 0:
        return bytes(length)
    if i == 1:
        return b"\xff" * length
    seed = f"c09/{version}/{length}/{network}".encode()
    return (hashlib.sha512(seed).digest())[:length]


def segwit_grid(tier):
    for version in range(17):
        for length in range(2, 41):
            for network in NETWORKS:
                for i in range(3):
                    yield {"version": version, "program": _pattern_program(version, length, network, i),
                           "network": network}


def segwit_strategy(tier):
    def prog(n):
        return st.one_of(
            st.binary(min_size=n, max_size=n),
            st.binary(min_size=n, max_size=n),
            st.integers(0, n).flatmap(  # leading zero run
                lambda z: st.binary(min_size=n - z, max_size=n - z).map(lambda b: bytes(z) + b)),
            st.integers(0, 255).map(lambda v: bytes([v]) * n),
        )

    lengths = st.one_of(st.sampled_from([2, 3, 4, 5, 19, 20, 21, 31, 32, 33, 39, 40]),
                        st.sampled_from(range(2, 41)))
    versions = st.one_of(st.sampled_from([0, 1, 2, 15, 16]), st.sampled_from(range(17)))
    return st.fixed_dictionaries(
        {"version": versions, "program": lengths.flatmap(prog), "network": st.sampled_from(NETWORKS)}
    )


def check_segwit(case, ctx):
    version, program, network = case["version"], bytes(case["program"]), case["network"]
    hrp = rb.HRP[network]
    ctx.label(f"v{version}")
    ctx.label("net:" + network)
    if len(program) in (2, 20, 32, 40):
        ctx.label(f"len={len(program)}")
    if len(program) % 5:
        ctx.label("needs_padding_bits")
    ctx.nontrivial(len(program) % 5 != 0 or version >= 1)
    spec = rb.spec_for_version(version)
    want = rb.segwit_encode(hrp, version, program)
    spk = rb.script_pubkey(version, program)
    got = must(encode_bech32_checksum, "segwit/encode", spk, network)
    require(got == want, "segwit/encode_differs:" + spec,
            f"v={version} prog={program.hex()} net={network} got={got} want={want}")
    dec = must(decode_bech32, "segwit/decode_of_valid:" + spec, want)
    require(len(dec) == 3 and dec[1] == version and bytes(dec[2]) == program
            and dec[0] == NET_OF_HRP[hrp], "segwit/decode_does_not_invert",
            f"addr={want} v={version} prog={program.hex()} -> {dec!r}")
    # the other checksum constant must be refused (BIP350)
    other = rb.BECH32M if spec == rb.BECH32 else rb.BECH32
    cross = rb.segwit_encode(hrp, version, program, spec=other)
    assert cross != want and rb.segwit_decode(cross, strict_v0_len=False) is None
    st_, got = attempt(decode_bech32, cross)
    require(st_ == "exc" or not got, f"segwit/accepts_wrong_constant:v{min(version, 1)}",
            f"{cross} ({other} checksum on a version {version} program) -> {got!r}")
    ctx.label("cross_constant_rejected")
    # address -> scriptPubKey on every (version, length), standard template or not: the address is
    # either refused or mapped to exactly OP_version <program>, whose address is this string again
    # (anything else gives two addresses for one script: not a bijection)
    s2, back = attempt(address_to_script_pubkey, want)
    if s2 == "ok" and back is not None:
        raw_back = must(back.raw_serialize, "segwit/a2s_serialise")
        require(raw_back == spk, f"segwit/address_to_script_differs:v{min(version, 2)}",
                f"addr={want} v={version} prog={program.hex()} -> {type(back).__name__} "
                f"{raw_back.hex()}")
        s4, again = attempt(back.address, network)
        require(s4 == "exc" or again == want, "segwit/address_to_script_readdress_differs",
                f"addr={want} -> {type(back).__name__} -> {again!r}")
        ctx.label("a2s_accepts_v0" if version == 0 else "a2s_accepts_v1+")
    else:
        ctx.label("a2s_refuses")
    # observation only (not part of the statement): version 17..31 with a valid bech32m checksum
    if version == 16:
        hi = rb.encode(hrp, [17 + len(program) % 15] + rb.to5(program), rb.BECH32M)
        s3, g3 = attempt(decode_bech32, hi)
        ctx.label("observed:version>16_" + ("accepted" if s3 == "ok" and g3 else "rejected"))


# ====================================================== substitution detection


def subst_strategy(tier):
    n_double = 300 if tier == "quick" else 3000
    std = st.sampled_from([(0, 20), (0, 32), (1, 32)])
    anyv = st.tuples(st.sampled_from(range(17)), st.one_of(st.sampled_from([2, 20, 32, 40]),
                                                           st.sampled_from(range(2, 41))))
    vl = st.one_of(std, std, anyv)
    return vl.flatmap(lambda t: st.fixed_dictionaries({
        "version": st.just(t[0]),
        "program": st.binary(min_size=t[1], max_size=t[1]),
        "network": st.sampled_from(NETWORKS),
        # the double substitutions are expanded from this drawn seed (a list of 4-tuples would cost
        # more to draw than to check): the case record still determines them completely
        "dseed": st.binary(min_size=8, max_size=8),
        "n_double": st.just(n_double),
    }))


def _doubles(dseed, count):
    out = []
    i = 0
    while len(out) < count:
        h = hashlib.sha256(bytes(dseed) + i.to_bytes(4, "big")).digest()
        for j in range(0, 32, 8):
            out.append((int.from_bytes(h[j:j + 3], "big"), h[j + 3] % 31,
                        int.from_bytes(h[j + 4:j + 7], "big"), h[j + 7] % 31))
        i += 1
    return out[:count]


def _accepted_by(text):
    """names of the decoding entry points that accept text"""
    out = []
    st_, got = attempt(decode_bech32, text)
    if st_ == "ok" and got:
        out.append("decode_bech32")
    st_, got = attempt(address_to_script_pubkey, text)
    if st_ == "ok" and got is not None:
        out.append("address_to_script_pubkey")
    st_, got = attempt(TxOut.to_address, text, 1)
    if st_ == "ok" and got is not None:
        out.append("TxOut.to_address")
    return out


# ====================================== strings the specs reject (valid checksum, invalid content)

BAD_KINDS = ["program_too_short", "program_too_long", "unknown_hrp", "char_outside_alphabet",
             "mixed_case", "no_separator", "no_program",
             # observed only: the statement does not speak about them and the library accepts them
             "obs:nonzero_padding", "obs:version>16"]


def bad_strategy(tier):
    return st.fixed_dictionaries({
        "kind": st.sampled_from(BAD_KINDS),
        "version": st.sampled_from(range(17)),
        "network": st.sampled_from(NETWORKS),
        "raw": st.binary(min_size=64, max_size=64),
        "n": st.integers(0, 10**6),
    })


def check_bad(case, ctx):
    """BIP173/BIP350: witness programs are 2..40 bytes; the human-readable part is one of the supported
    networks'; the data part uses the 32-character alphabet in one case.  Every string below carries a
    CORRECT checksum for its (invalid) content, so that rejection cannot come from the checksum test."""
    kind, version, network, raw, n = case["kind"], case["version"], case["network"], bytes(case["raw"]), case["n"]
    hrp = rb.HRP[network]
    spec = rb.spec_for_version(version)
    ctx.label("kind:" + kind)
    ctx.nontrivial()
    if kind == "program_too_short":
        text = rb.encode(hrp, [version] + rb.to5(raw[: n % 2]), spec)
    elif kind == "program_too_long":
        ln = 41 + n % 9  # up to 49 bytes: the text stays within the 90-character limit for every hrp
        text = rb.encode(hrp, [version] + rb.to5(raw[:ln]), spec)
    elif kind == "unknown_hrp":
        bad_hrp = ["xy", "ltc", "bcr", "t", "b", "tbb", "bd"][n % 7]
        text = rb.encode(bad_hrp, [version] + rb.to5(raw[:32]), spec)
    elif kind in ("char_outside_alphabet", "mixed_case"):
        good = rb.segwit_encode(hrp, version, raw[: 2 + n % 39])
        start = len(hrp) + 1
        i = start + (n // 64) % (len(good) - start)
        if kind == "mixed_case":
            letters = [j for j in range(start, len(good)) if good[j].isalpha()]
            i = letters[(n // 64) % len(letters)]
            text = good[:i] + good[i].upper() + good[i + 1:]
        else:
            text = good[:i] + "bio1"[n % 4] + good[i + 1:]
    elif kind == "no_separator":
        good = rb.segwit_encode(hrp, version, raw[: 2 + n % 39])
        text = good[: len(hrp)] + good[len(hrp) + 1:]
    elif kind == "no_program":
        text = rb.encode(hrp, [version], spec)
    elif kind == "obs:nonzero_padding":
        ln = [21, 32, 2, 3, 7, 39][n % 6]  # lengths whose last 5-bit group contains padding bits
        d5 = rb.to5(raw[:ln])
        d5[-1] |= 1
        text = rb.encode(hrp, [version] + d5, spec)
    else:
        text = rb.encode(hrp, [17 + n % 15] + rb.to5(raw[:32]), rb.BECH32M)
    if rb.segwit_decode(text, strict_v0_len=False) is not None:
        raise HarnessError(f"the reference decoder accepts a string built as {kind}: {text}")
    acc = _accepted_by(text)
    if kind.startswith("obs:"):
        ctx.label(kind + ("_accepted" if acc else "_rejected"))
        return
    require(not acc, f"bad/accepted:{kind}", f"{text} accepted by {acc}")


def check_subst(case, ctx):
    version, program, network = case["version"], bytes(case["program"]), case["network"]
    hrp = rb.HRP[network]
    addr = rb.segwit_encode(hrp, version, program)
    ctx.nontrivial()
    ctx.label("net:" + network)
    std = (version, len(program)) in ((0, 20), (0, 32), (1, 32))
    ctx.label("standard_template" if std else "other_version_or_length")
    ctx.label("v0" if version == 0 else "v1+")
    # the unmodified address is accepted (so that rejection below is due to the substitution)
    acc = _accepted_by(addr)
    require("decode_bech32" in acc, "subst/valid_address_rejected", addr)
    if std:
        require("address_to_script_pubkey" in acc, "subst/valid_address_rejected_by_a2s", addr)
        if network != "regtest":
            require("TxOut.to_address" in acc, "subst/valid_address_rejected_by_to_address", addr)
    start = len(hrp) + 1
    data = [CH.index(c) for c in addr[start:]]
    n = len(data)

    def build(d):
        return addr[:start] + "".join(CH[x] for x in d)

    def bucket_pos(p):
        return "version_char" if p == 0 else ("checksum" if p >= n - 6 else "program")

    for p in range(n):
        for delta in range(1, 32):
            d = list(data)
            d[p] = (d[p] + delta) % 32
            text = build(d)
            acc = _accepted_by(text)
            if acc:
                raise Violation(
                    f"subst/single_substitution_accepted:{bucket_pos(p)}:{acc[0]}",
                    f"valid={addr} substituted={text} pos={p} accepted_by={acc} "
                    f"reference_accepts={rb.segwit_decode(text, strict_v0_len=False) is not None}")
    ctx.label("single_substitutions", n * 31)
    doubles = _doubles(case["dseed"], case["n_double"])
    for p1, c1, p2, c2 in doubles:
        a = p1 % n
        b = (a + 1 + p2 % (n - 1)) % n
        d = list(data)
        d[a] = (d[a] + 1 + c1) % 32
        d[b] = (d[b] + 1 + c2) % 32
        text = build(d)
        acc = _accepted_by(text)
        if acc:
            raise Violation(
                f"subst/double_substitution_accepted:{bucket_pos(min(a, b))}:{acc[0]}",
                f"valid={addr} substituted={text} pos={a},{b} accepted_by={acc} "
                f"reference_accepts={rb.segwit_decode(text, strict_v0_len=False) is not None}")
        if a == 0 or b == 0:
            ctx.label("double_incl_version_char")
    ctx.label("double_substitutions", len(doubles))


# ================================================= script <-> address bijection

TEMPLATES = ["p2pkh", "p2sh", "p2wpkh", "p2wsh", "p2tr"]
HLEN = {"p2pkh": 20, "p2sh": 20, "p2wpkh": 20, "p2wsh": 32, "p2tr": 32}
CLS = {"p2pkh": P2PKHScriptPubKey, "p2sh": P2SHScriptPubKey, "p2wpkh": P2WPKHScriptPubKey,
       "p2wsh": P2WSHScriptPubKey, "p2tr": P2TRScriptPubKey}


def ref_script(template, h):
    if template == "p2pkh":
        return b"\x76\xa9\x14" + h + b"\x88\xac"
    if template == "p2sh":
        return b"\xa9\x14" + h + b"\x87"
    if template == "p2wpkh":
        return b"\x00\x14" + h
    if template == "p2wsh":
        return b"\x00\x20" + h
    if template == "p2tr":
        return b"\x51\x20" + h
    raise AssertionError(template)


def ref_address(template, h, network):
    main = network == "mainnet"
    if template == "p2pkh":
        return r32.b58check_encode((b"\x00" if main else b"\x6f") + h)
    if template == "p2sh":
        return r32.b58check_encode((b"\x05" if main else b"\xc4") + h)
    return rb.segwit_encode(rb.HRP[network], 1 if template == "p2tr" else 0, h)


def bij_strategy(tier):
    def hashes(n):
        return st.one_of(
            st.binary(min_size=n, max_size=n),
            st.binary(min_size=n, max_size=n),
            st.integers(1, n).flatmap(
                lambda z: st.binary(min_size=n - z, max_size=n - z).map(lambda b: bytes(z) + b)),
            st.sampled_from([b"\xff" * n, bytes(n)]),
        )

    def one(t):
        return st.fixed_dictionaries({"template": st.just(t), "h": hashes(HLEN[t])})

    return st.fixed_dictionaries(
        {
            "a": st.sampled_from(TEMPLATES).flatmap(one),
            "b": st.sampled_from(TEMPLATES).flatmap(one),
            "same_hash": st.booleans(),
            "network": st.sampled_from(NETWORKS),
            "inner": st.binary(min_size=33, max_size=33),
            "amount": st.integers(0, 21 * 10**14),
        }
    )


def _varstr(b):
    assert len(b) < 0xFD
    return bytes([len(b)]) + b


def check_bij(case, ctx):
    network = case["network"]
    template, h = case["a"]["template"], bytes(case["a"]["h"])
    ctx.nontrivial()
    ctx.label(f"{template}/{network}")
    if h[:1] == b"\x00":
        ctx.label("hash_with_leading_zero")
    raw = ref_script(template, h)
    want = ref_address(template, h, network)
    # script -> address, through the parser's template recognition and through the constructor
    parsed = must(ScriptPubKey.parse, "bij/parse_script", BytesIO(_varstr(raw)))
    require(type(parsed) is CLS[template], "bij/template_not_recognised",
            f"{raw.hex()} -> {type(parsed).__name__}")
    addr = must(parsed.address, "bij/address", network)
    require(addr == want, f"bij/address_differs:{template}",
            f"script={raw.hex()} net={network} got={addr} want={want}")
    direct = CLS[template](h)
    require(must(direct.raw_serialize, "bij/serialise") == raw, "bij/constructor_script_differs")
    require(must(direct.address, "bij/address", network) == want, f"bij/address_differs:{template}")
    # address -> script (inverse), and forth again
    back = must(address_to_script_pubkey, f"bij/address_to_script:{template}", want)
    require(back.raw_serialize() == raw, f"bij/address_to_script_differs:{template}",
            f"addr={want} got={back.raw_serialize().hex()} want={raw.hex()}")
    require(type(back) is CLS[template], "bij/address_to_script_type", type(back).__name__)
    require(must(back.address, "bij/address", network) == want, "bij/readdress_differs", want)
    # TxOut.to_address: the same script, or (regtest bech32 only) an exception
    st_, out = attempt(TxOut.to_address, want, case["amount"])
    if st_ == "ok":
        require(out.script_pubkey.raw_serialize() == raw and out.amount == case["amount"],
                f"bij/to_address_differs:{template}",
                f"addr={want} got={out.script_pubkey.raw_serialize().hex()}")
        ctx.label("to_address_ok")
    else:
        require(network == "regtest" and template in ("p2wpkh", "p2wsh", "p2tr"),
                f"bij/to_address_rejects_valid:{template}", f"{want}: {type(out).__name__}: {out}")
        ctx.label("to_address_regtest_segwit_raises")
    # injectivity: a different standard script never shares the address
    t2, h2 = case["b"]["template"], bytes(case["b"]["h"])
    if case["same_hash"] and HLEN[t2] == HLEN[template]:
        h2 = h
        ctx.label("same_hash_other_template")
    raw2 = ref_script(t2, h2)
    if raw2 != raw:
        addr2 = must(CLS[t2](h2).address, "bij/address", network)
        require(addr2 != addr, "bij/two_scripts_one_address",
                f"{raw.hex()} and {raw2.hex()} -> {addr}")
        ctx.label("distinct_scripts_compared")
    # wrapped scripts: RedeemScript / WitnessScript addresses are those of their hash templates
    inner_raw = b"\x51\x21" + bytes(case["inner"]) + b"\x51\xae"
    rs = must(RedeemScript.convert, "bij/redeem_convert", inner_raw)
    require(must(rs.address, "bij/redeem_address", network)
            == ref_address("p2sh", r32.hash160(inner_raw), network), "bij/redeem_script_address_differs",
            inner_raw.hex())
    ws = must(WitnessScript.convert, "bij/witness_convert", inner_raw)
    require(must(ws.address, "bij/witness_address", network)
            == ref_address("p2wsh", hashlib.sha256(inner_raw).digest(), network),
            "bij/witness_script_address_differs", inner_raw.hex())


SUBS = [
    Sub("base58check", check_b58, strategy=b58_strategy,
        budget={"quick": 24000, "thorough": 900000},
        required=["mut:" + m for m in B58_MUT] + ["ref_accepts", "ref_rejects", "payload_empty",
                                                 "leading_zero_bytes", "leading_zero_run>=2",
                                                 "payload_all_zero", "payload>=78"],
        nontrivial_rule="payload with a leading zero byte, or any mutation of the text"),
    Sub("wif", check_wif, strategy=wif_strategy, budget={"quick": 400, "thorough": 12000},
        required=["net:" + n for n in NETWORKS] + ["compressed", "uncompressed",
                                                  "secret_with_leading_zero_byte",
                                                  "substituted_rejected"]),
    Sub("extended_keys", check_xkey, strategy=xkey_strategy,
        budget={"quick": 1200, "thorough": 36000},
        required=["xprv", "xpub", "substituted_rejected"]
        + ["version:" + v for v in XPRV_VERSIONS + XPUB_VERSIONS]),
    Sub("segwit_grid", check_segwit, kind="exhaustive", enumerate=segwit_grid,
        required=[f"v{v}" for v in range(17)] + ["net:" + n for n in NETWORKS]
        + ["len=2", "len=20", "len=32", "len=40", "cross_constant_rejected"],
        nontrivial_rule="program length not a multiple of 5 (padding bits) or version >= 1"),
    Sub("segwit_random", check_segwit, strategy=segwit_strategy,
        budget={"quick": 16000, "thorough": 600000},
        required=[f"v{v}" for v in range(17)] + ["len=2", "len=40", "needs_padding_bits"],
        nontrivial_rule="program length not a multiple of 5 (padding bits) or version >= 1"),
    Sub("substitution_detection", check_subst, strategy=subst_strategy,
        budget={"quick": 400, "thorough": 5000},
        required=["net:" + n for n in NETWORKS] + ["standard_template", "other_version_or_length",
                                                  "v0", "v1+", "double_incl_version_char"],
        nontrivial_rule="every case: one address with all 31*len single substitutions and the "
                        "sampled doubles"),
    Sub("segwit_spec_rejects", check_bad, strategy=bad_strategy,
        budget={"quick": 3000, "thorough": 100000},
        required=["kind:" + k for k in BAD_KINDS],
        nontrivial_rule="every case: one string with a correct checksum over content BIP173/350 "
                        "forbid (program outside 2..40 bytes, unknown hrp, foreign character, mixed "
                        "case, no separator, no program); padding and version > 16 are observed only"),
    Sub("script_address_bijection", check_bij, strategy=bij_strategy,
        budget={"quick": 10000, "thorough": 360000},
        required=[f"{t}/{n}" for t in TEMPLATES for n in NETWORKS]
        + ["to_address_ok", "to_address_regtest_segwit_raises", "distinct_scripts_compared",
           "same_hash_other_template", "hash_with_leading_zero"]),
]
