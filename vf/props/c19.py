"""C19 P2P framing (NetworkEnvelope) and primitive / fixed-layout wire codecs."""
import hashlib
import struct
from io import BytesIO

from hypothesis import strategies as st

from buidl import compactfilter as bcf
from buidl import helper as bh
from buidl import network as bnet
from buidl.block import Block
from buidl.network import NetworkEnvelope

from vf import gen
from vf.core import Discard, Sub, Violation, attempt, must, rejects, require
from vf.ref import p2p
from vf.txgen import expand

RULE = (
    "envelope_roundtrip: commands of every length 0..12 (printable ASCII and the real protocol "
    "commands), payloads of 0..100000 bytes (edge lengths 0,1,252,253,65535,65536,100000 + uniform), "
    "all four networks, compared with a struct-built reference envelope in both directions. "
    "envelope_rejects: constructed invalid envelopes (other network's magic, altered magic / checksum "
    "/ payload byte, declared length larger than the bytes present with an honest or a re-computed "
    "checksum) decided by a reference parser. envelope_corruption: EVERY byte position of a sampled "
    "envelope x {8 single-bit masks + 1 generated mask}; accept/reject must equal the reference "
    "parser (command-field alterations are not asserted). primitives: compact-size / var-string / "
    "fixed-width LE+BE integers at and around every width boundary vs struct. messages: generated "
    "field values of every listed message type vs struct-built reference bytes, serialize and parse "
    "wherever the class offers them. Non-trivial: distinct case records (every case exercises the "
    "clause of its sub-check)."
)
ASSUMPTIONS = [
    "commands are printable ASCII (no NUL inside a command) of at most 12 bytes; payload <= 100000 bytes",
    "signed protocol fields (version, start_height, timestamp, block version) are generated in their "
    "non-negative range, where the library's unsigned encoding and the protocol's signed one coincide",
    "GetHeadersMessage only models a one-hash locator: num_hashes is left at its default 1",
    "cfilter payloads carry a well-formed BIP158 filter (the constructor decodes it); filter content is C18",
    "byte order of API values: block hashes are display order (reversed on the wire) as everywhere in "
    "buidl; BIP157 filter hashes / filter headers are wire order (pinned by last_header, which is "
    "compared with an independent BIP157 header chain)",
    "non-minimal compact-size encodings and truncated primitive / message streams are not covered by "
    "the statement and are not asserted",
]

NETS = p2p.NETWORKS
REAL_COMMANDS = [b"version", b"verack", b"ping", b"pong", b"getheaders", b"headers", b"getdata",
                 b"getcfilters", b"cfilter", b"getcfheaders", b"cfheaders", b"getcfcheckpt",
                 b"cfcheckpt", b"merkleblock", b"tx", b"block", b"filterload", b"sendaddrv2x",
                 b"abcdefghijkl", b""]


def selftest():
    p2p.selftest()
    for n in NETS:  # the library's own table is not the oracle, but must at least cover the networks
        assert n in bnet.MAGIC


# ------------------------------------------------------------------ strategies


def commands():
    printable = st.integers(0, 12).flatmap(
        lambda n: st.lists(st.integers(0x20, 0x7E), min_size=n, max_size=n).map(bytes))
    return st.one_of(st.sampled_from(REAL_COMMANDS), printable, printable)


PLEN_EDGES = [0, 1, 2, 252, 253, 254, 65535, 65536, 65537, 99999, 100000]


def payload_parts(big=True):
    lens = [st.sampled_from(PLEN_EDGES if big else [0, 1, 2, 31, 32, 33]), st.integers(0, 2000)]
    if big:
        lens.append(st.integers(0, 100000))
    return {"plen": st.one_of(*lens), "pat": st.binary(min_size=1, max_size=12)}


def payload_of(case):
    return expand(case["plen"], bytes(case["pat"]))


def plen_label(n, ctx):
    for e in (0, 1, 252, 253, 65535, 65536, 100000):
        if n == e:
            ctx.label(f"plen={e}")
    if n >= 65536:
        ctx.label("plen>=65536")


# ---------------------------------------------------------- envelope roundtrip


def roundtrip_strategy(tier):
    d = {"net": st.sampled_from(NETS), "cmd": commands(), "trailing": st.binary(max_size=30)}
    d.update(payload_parts())
    return st.fixed_dictionaries(d)


def check_roundtrip(case, ctx):
    net, cmd, trailing = case["net"], bytes(case["cmd"]), bytes(case["trailing"])
    payload = payload_of(case)
    ctx.nontrivial()
    ctx.label(f"cmdlen={len(cmd)}")
    ctx.label("net:" + net)
    plen_label(len(payload), ctx)
    want = p2p.envelope(net, cmd, payload)
    env = NetworkEnvelope(cmd, payload, network=net)
    got = must(env.serialize, "roundtrip/serialize")
    require(got == want, "roundtrip/serialize_layout",
            lambda: f"net={net} cmd={cmd!r} plen={len(payload)} got={got[:40].hex()} want={want[:40].hex()}")
    s = BytesIO(want + trailing)
    e2 = must(NetworkEnvelope.parse, "roundtrip/parse", s, network=net)
    require(e2.command == cmd, "roundtrip/parse_command", f"{e2.command!r} vs {cmd!r}")
    require(e2.payload == payload, "roundtrip/parse_payload", f"plen={len(payload)} got={len(e2.payload)}")
    require(e2.magic == p2p.MAGIC[net], "roundtrip/parse_magic")
    require(s.tell() == len(want), "roundtrip/bytes_consumed", f"{s.tell()} of {len(want)}")
    require(must(e2.serialize, "roundtrip/reserialize") == want, "roundtrip/reserialize_differs")
    require(e2.stream().read() == payload, "roundtrip/stream")
    # two messages back to back on one stream, as they arrive from a peer
    first = p2p.envelope(net, b"verack", b"")
    s2 = BytesIO(first + want + first)
    a1 = must(NetworkEnvelope.parse, "roundtrip/parse_first_of_stream", s2, network=net)
    a2 = must(NetworkEnvelope.parse, "roundtrip/parse_second_of_stream", s2, network=net)
    a3 = must(NetworkEnvelope.parse, "roundtrip/parse_third_of_stream", s2, network=net)
    require((a1.command, a1.payload, a3.command, a3.payload) == (b"verack", b"", b"verack", b"")
            and a2.command == cmd and a2.payload == payload and s2.tell() == len(want) + 2 * len(first)
            and a1.magic == a2.magic == a3.magic == p2p.MAGIC[net],
            "roundtrip/messages_back_to_back", f"cmd={cmd!r} plen={len(payload)}")
    if net == "mainnet":  # documented default network
        e3 = must(NetworkEnvelope.parse, "roundtrip/parse_default", BytesIO(want))
        require(e3.payload == payload and e3.command == cmd, "roundtrip/parse_default_fields")


# ------------------------------------------------------------ envelope rejects

REJ_KINDS = ["honest", "other_network_magic", "magic_byte", "checksum_byte", "payload_byte",
             "length_larger_recomputed_checksum", "length_larger_honest_checksum", "stream_cut"]
EXTRA_EDGES = [1, 2, 3, 255, 256, 65535, 65536, 2**24, 2**31, 2**32 - 1]


def rejects_strategy(tier):
    d = {
        "net": st.sampled_from(NETS), "net2": st.integers(1, 3), "cmd": commands(),
        "kind": st.sampled_from(REJ_KINDS), "pos": st.integers(0, 2**20),
        "mask": st.one_of(st.sampled_from([1, 2, 4, 8, 16, 32, 64, 128, 255]), st.integers(1, 255)),
        "extra": st.one_of(st.sampled_from(EXTRA_EDGES), st.integers(1, 2**32 - 1)),
        "trailing": st.binary(max_size=12),
    }
    d.update(payload_parts())
    return st.fixed_dictionaries(d)


def check_rejects(case, ctx):
    net, cmd, kind = case["net"], bytes(case["cmd"]), case["kind"]
    payload = payload_of(case)
    pos, mask = case["pos"], case["mask"]
    ctx.label("kind:" + kind)
    ctx.nontrivial(kind != "honest")
    if kind in ("payload_byte", "stream_cut") and not payload:
        payload = bytes(case["pat"])[:1]
    good = bytearray(p2p.envelope(net, cmd, payload))
    parse_net = net
    if kind == "honest":
        data = bytes(good) + bytes(case["trailing"])
    elif kind == "other_network_magic":
        parse_net = NETS[(NETS.index(net) + case["net2"]) % 4]
        data = bytes(good)
    elif kind == "magic_byte":
        good[pos % 4] ^= mask
        data = bytes(good)
    elif kind == "checksum_byte":
        good[20 + pos % 4] ^= mask
        data = bytes(good) + bytes(case["trailing"])
    elif kind == "payload_byte":
        good[24 + pos % len(payload)] ^= mask
        data = bytes(good) + bytes(case["trailing"])
    elif kind.startswith("length_larger"):
        declared = min(len(payload) + case["extra"], 2**32 - 1)
        if declared <= len(payload):
            raise Discard("cannot enlarge")
        good[16:20] = struct.pack("<I", declared)
        # 'recomputed': the checksum matches the bytes that are really there
        # 'honest': the checksum is that of the sender's full payload, which never arrives -- model
        # it by a checksum of payload + one unseen byte pattern
        if kind.endswith("honest_checksum"):
            good[20:24] = p2p.sha256d(payload + expand(min(declared - len(payload), 64),
                                                       bytes(case["pat"])))[:4]
        data = bytes(good)
    elif kind == "stream_cut":
        cut = 24 + pos % len(payload)  # 24 <= cut < len: header complete, payload short
        data = bytes(good[:cut])
    else:
        raise AssertionError(kind)
    ref = p2p.parse_envelope(data, parse_net)
    if kind == "honest":
        assert ref is not None
        e = must(NetworkEnvelope.parse, "rejects/honest_refused", BytesIO(data), network=net)
        require(e.payload == payload and e.command == cmd, "rejects/honest_fields")
        ctx.label("accepted")
        return
    if ref is not None:
        raise Discard("4-byte checksum collision")
    st_, got = attempt(NetworkEnvelope.parse, BytesIO(data), network=parse_net)
    if st_ == "ok" and got:
        raise Violation(
            "rejects/accepted:" + kind,
            f"net={parse_net} header={data[:24].hex()} bytes_after_header={len(data) - 24} "
            f"returned payload of {len(got.payload)} bytes")
    ctx.label("rejected")


# ---------------------------------------------- every single-byte corruption


def corruption_strategy(tier):
    d = {"net": st.sampled_from(NETS), "cmd": commands(), "mask": st.integers(1, 255),
         "trailing": st.one_of(st.just(b""), st.binary(max_size=40))}
    d.update(payload_parts(big=False))
    d["plen"] = st.one_of(st.sampled_from([0, 1, 2, 31, 32, 33]), st.integers(0, 48))
    return st.fixed_dictionaries(d)


def check_corruption(case, ctx):
    net, cmd = case["net"], bytes(case["cmd"])
    payload = payload_of(case)
    trailing = bytes(case["trailing"])
    good = p2p.envelope(net, cmd, payload)
    ctx.nontrivial()
    ctx.label("with_trailing_bytes" if trailing else "stream_ends_with_envelope")
    masks = [1, 2, 4, 8, 16, 32, 64, 128]
    if case["mask"] not in masks:
        masks.append(case["mask"])
    first = None  # first violation; the sweep over all positions is completed before it is raised
    for pos in range(len(good)):
        reg = p2p.region(pos)
        for m in masks:
            b = bytearray(good)
            b[pos] ^= m
            data = bytes(b) + trailing
            ref = p2p.parse_envelope(data, net)
            st_, got = attempt(NetworkEnvelope.parse, BytesIO(data), network=net)
            accepted = st_ == "ok" and bool(got)
            if reg == "command":
                # not in the statement: only 'what is returned is what was sent'
                ctx.label("command_byte_altered")
                if accepted:
                    require(got.payload == payload, "corruption/command_alteration_changes_payload")
                continue
            if ref is None:
                ctx.label("ref_rejects:" + reg)
                if accepted and first is None:
                    declared = struct.unpack_from("<I", data, 16)[0]
                    why = reg
                    if reg == "length":
                        why = "length_larger" if declared > len(payload) else "length_smaller"
                    first = Violation(
                        "corruption/accepted:" + why,
                        f"net={net} byte {pos} ^ {m:#x}: header={data[:24].hex()} declared={declared} "
                        f"bytes_after_header={len(data) - 24} returned_payload={len(got.payload)}")
            else:
                # only possible with a 32-bit checksum collision
                ctx.label("ref_accepts:" + reg)
                require(accepted, "corruption/refused_valid:" + reg, data[:24].hex())
                require(got.payload == ref[1], "corruption/payload_differs:" + reg)
    ctx.label("positions", len(good))
    if first is not None:
        raise first


# ------------------------------------------------------------------ primitives

B = [0xFC, 0xFD, 0xFFFF, 0x10000, 0xFFFFFFFF, 0x100000000, 2**64 - 1]
VARINT_EDGES = sorted({v for b in B for v in (b - 1, b, b + 1) if 0 <= v < 2**64} | {0, 1, 2**63})
STRLEN_EDGES = [0, 1, 0xFB, 0xFC, 0xFD, 0xFE, 0xFFFE, 0xFFFF, 0x10000, 0x10001, 100000]
PRIM_OPS = ["varint", "varint_out_of_range", "varstr", "fixed_le", "fixed_be", "fixed_out_of_range",
            "byte"]
FIXED_SEL = ["rand", "rand", "rand", "zero", "one", "max", "msb", "top_byte_ff", "low_byte_ff",
             "max-1", "pow_prev"]


def prim_strategy(tier):
    return st.fixed_dictionaries({
        "op": st.sampled_from(PRIM_OPS),
        "n": st.one_of(
            st.sampled_from(VARINT_EDGES), st.integers(0, 0xFC), st.integers(0xFD, 0xFFFF),
            st.integers(0x10000, 0xFFFFFFFF), gen.uniform_int(0x100000000, 2**64 - 1),
            st.integers(0x100000000, 2**64 - 1)),
        "oor": st.one_of(st.sampled_from([2**64, 2**64 + 1, -1, -2, 2**65, -(2**64), 2**72]),
                         st.integers(2**64, 2**64 + 10**6), st.integers(-(10**6), -1),
                         gen.uniform_int(2**64, 2**80)),
        "slen": st.one_of(st.sampled_from(STRLEN_EDGES), st.integers(0, 300),
                          st.integers(0, 100000)),
        "pat": st.binary(min_size=1, max_size=12),
        "w": st.one_of(st.sampled_from([1, 2, 3, 4, 5, 8, 16, 20, 32, 33]), st.integers(1, 40)),
        "sel": st.sampled_from(FIXED_SEL),
        "rnd": st.binary(min_size=40, max_size=40),
        "over": st.integers(0, 1000),
        "trailing": st.binary(max_size=9),
    })


def fixed_value(case):
    w, sel = case["w"], case["sel"]
    top = 256**w
    return {
        "rand": int.from_bytes(bytes(case["rnd"])[:w], "big"),
        "zero": 0, "one": 1, "max": top - 1, "msb": top // 2, "top_byte_ff": 0xFF << (8 * (w - 1)),
        "low_byte_ff": 0xFF, "max-1": top - 2, "pow_prev": 256 ** (w - 1),
    }[sel]


def check_prim(case, ctx):
    op = case["op"]
    trailing = bytes(case["trailing"])
    ctx.label("op:" + op)
    ctx.nontrivial()
    if op == "varint":
        n = case["n"]
        want = p2p.compact_size(n)
        ctx.label(f"varint_width={len(want)}")
        if n in VARINT_EDGES:
            ctx.label("varint_edge")
        got = must(bh.encode_varint, "prim/encode_varint", n)
        require(got == want, "prim/encode_varint_layout", f"n={n:#x} got={got.hex()} want={want.hex()}")
        s = BytesIO(want + trailing)
        back = must(bh.read_varint, "prim/read_varint", s)
        require(back == n, "prim/read_varint_value", f"{want.hex()} -> {back:#x}")
        require(s.tell() == len(want), "prim/read_varint_consumed", f"{s.tell()} of {len(want)}")
    elif op == "varint_out_of_range":
        n = case["oor"]
        st_, got = attempt(bh.encode_varint, n)
        if st_ == "ok":  # never a silent wrap-around: what is written must read back as n
            st2, back = attempt(bh.read_varint, BytesIO(bytes(got)))
            require(st2 == "ok" and back == n, "prim/encode_varint_wraps_out_of_range",
                    f"n={n} -> {bytes(got).hex()}")
        ctx.label("oor_raises" if st_ == "exc" else "oor_encoded")
    elif op == "varstr":
        data = expand(case["slen"], bytes(case["pat"]))
        for e in (0xFC, 0xFD, 0xFFFF, 0x10000, 100000):
            if len(data) == e:
                ctx.label(f"strlen={e:#x}")
        want = p2p.var_str(data)
        got = must(bh.encode_varstr, "prim/encode_varstr", data)
        require(got == want, "prim/encode_varstr_layout", f"len={len(data)} got={got[:12].hex()}")
        s = BytesIO(want + trailing)
        back = must(bh.read_varstr, "prim/read_varstr", s)
        require(back == data, "prim/read_varstr_value", f"len={len(data)} got={len(back)}")
        require(s.tell() == len(want), "prim/read_varstr_consumed")
    elif op in ("fixed_le", "fixed_be"):
        w, n = case["w"], fixed_value(case)
        ctx.label(f"width={w}" if w in (1, 2, 4, 8, 32) else "width=other")
        ctx.label("sel:" + case["sel"])
        if op == "fixed_le":
            want = p2p.uint_le(n, w)
            got = must(bh.int_to_little_endian, "prim/int_to_little_endian", n, w)
            back = must(bh.little_endian_to_int, "prim/little_endian_to_int", want)
        else:
            want = p2p.uint_be(n, w)
            got = must(bh.int_to_big_endian, "prim/int_to_big_endian", n, w)
            back = must(bh.big_endian_to_int, "prim/big_endian_to_int", want)
        require(got == want, f"prim/{op}_layout", f"n={n:#x} w={w} got={got.hex()} want={want.hex()}")
        require(back == n, f"prim/{op}_decode", f"{want.hex()} -> {back:#x}")
    elif op == "fixed_out_of_range":
        w = case["w"]
        n = 256**w + case["over"] if case["sel"] != "zero" else -1 - case["over"]
        for enc, dec, name in ((bh.int_to_little_endian, bh.little_endian_to_int, "le"),
                               (bh.int_to_big_endian, bh.big_endian_to_int, "be")):
            st_, got = attempt(enc, n, w)
            if st_ == "ok":
                require(len(got) == w and dec(got) == n, f"prim/fixed_{name}_truncates_out_of_range",
                        f"n={n} w={w} -> {bytes(got).hex()}")
        ctx.label("negative" if n < 0 else "too_large")
    elif op == "byte":
        n = case["n"] % 256
        got = must(bh.int_to_byte, "prim/int_to_byte", n)
        require(got == struct.pack("B", n), "prim/int_to_byte_layout")
        require(bh.byte_to_int(got) == n, "prim/byte_to_int")
        for bad in (256 + case["over"], -1 - case["over"]):
            st_, g = attempt(bh.int_to_byte, bad)
            require(st_ == "exc", "prim/int_to_byte_out_of_range_accepted", str(bad))
    else:
        raise AssertionError(op)


# -------------------------------------------------------------------- messages

U32_EDGES = [0, 1, 0x7F, 0x80, 0xFF, 0x100, 0xFFFF, 0x10000, 0xFFFFFF, 0x1000000, 0x7FFFFFFF,
             0x80000000, 0xFFFFFFFF]
U64_EDGES = U32_EDGES + [0x100000000, 2**63 - 1, 2**63, 2**64 - 1]


def u32():
    return st.one_of(st.sampled_from(U32_EDGES), gen.uniform_int(0, 2**32 - 1), st.integers(0, 2**32 - 1))


def i32nn():
    return st.one_of(st.sampled_from([e for e in U32_EDGES if e < 2**31]),
                     gen.uniform_int(0, 2**31 - 1), st.integers(0, 2**31 - 1))


def u64():
    return st.one_of(st.sampled_from(U64_EDGES), gen.uniform_int(0, 2**64 - 1), st.integers(0, 2**64 - 1))


def i64nn():
    return st.one_of(st.sampled_from([e for e in U64_EDGES if e < 2**63]),
                     gen.uniform_int(0, 2**63 - 1), st.integers(0, 2**33))


def u16():
    return st.one_of(st.sampled_from([0, 1, 0xFF, 0x100, 0x208D, 0x8D20, 8333, 18333, 38333, 18444,
                                      0x7FFF, 0x8000, 0xFFFF, 0x0101]), st.integers(0, 0xFFFF))


def u8():
    return st.one_of(st.sampled_from([0, 1, 0x7F, 0x80, 0xFF]), st.integers(0, 255))


def counts(tier, big=True):
    """list lengths across the compact-size boundaries; 65535/65536 only for parsers (the library's
    serialisers append to an immutable bytes object, which is quadratic) and with a low weight"""
    small = st.one_of(st.sampled_from([0, 1, 2, 3, 252, 253, 254, 300]), st.integers(0, 20))
    if not big:
        return small
    one_in = 40 if tier == "thorough" else 300
    return st.tuples(st.binary(min_size=2, max_size=2), small, st.sampled_from([65535, 65536])).map(
        lambda t: t[2] if int.from_bytes(t[0], "big") % one_in == 1 else t[1])


def listed(tier, big=True):
    """a list of 32-byte values: explicit generated head + tail derived from a seed"""
    return {"count": counts(tier, big), "head": st.lists(gen.b32(), max_size=4),
            "seed": st.binary(min_size=4, max_size=8)}


def derive(seed, i, n=32):
    out = b""
    c = 0
    while len(out) < n:
        out += hashlib.sha256(bytes(seed) + struct.pack("<II", i, c)).digest()
        c += 1
    return out[:n]


def hashes_of(case):
    head = [bytes(h) for h in case["head"]][: case["count"]]
    return head + [derive(case["seed"], i) for i in range(len(head), case["count"])]


def header_fields():
    return st.fixed_dictionaries({
        "version": i32nn(), "prev": gen.b32(), "root": gen.b32(), "time": u32(), "bits": u32(),
        "nonce": u32()})


MSG_TYPES = ["version", "getheaders", "headers", "getdata", "ping", "pong", "getcfilters", "cfilter",
             "getcfheaders", "cfheaders", "getcfcheckpt", "cfcheckpt", "block_header"]
UA_LENS = [0, 1, 15, 27, 252, 253, 254, 300]
DELTA_EDGES = [1, 2, 2**19 - 1, 2**19, 2**19 + 1, 2**20, 2**22 - 1]


def msg_strategy(tier):
    def T(name, **fields):
        fields["type"] = st.just(name)
        fields["trailing"] = st.binary(max_size=5)
        return st.fixed_dictionaries(fields)

    alts = [
        T("version", version=i32nn(), services=u64(), timestamp=i64nn(), recv_services=u64(),
          recv_ip=st.binary(min_size=4, max_size=4), recv_port=u16(), from_services=u64(),
          from_ip=st.binary(min_size=4, max_size=4), from_port=u16(),
          nonce=st.binary(min_size=8, max_size=8),
          ua_len=st.one_of(st.sampled_from(UA_LENS), st.integers(0, 60)),
          pat=st.binary(min_size=1, max_size=12), start_height=i32nn(), relay=st.booleans()),
        T("getheaders", version=u32(), start=gen.b32(), end=st.one_of(st.none(), gen.b32())),
        T("headers", count=counts(tier, big=(tier == "thorough")), head=st.lists(header_fields(), max_size=3),
          seed=st.binary(min_size=4, max_size=8)),
        T("getdata", types=st.lists(st.one_of(
            st.sampled_from([1, 2, 3, 4, (1 << 30) + 1, (1 << 30) + 2, 0, 0xFFFFFFFF]), u32()),
            min_size=4, max_size=4), **listed(tier, big=False)),
        T("ping", nonce=st.binary(min_size=8, max_size=8)),
        T("pong", nonce=st.binary(min_size=8, max_size=8)),
        T("getcfilters", ftype=u8(), start_height=u32(), stop=gen.b32()),
        T("cfilter", ftype=u8(), block=gen.b32(),
          n=st.one_of(st.sampled_from([0, 1, 2, 94, 95, 96, 97, 120]), st.integers(0, 12)),
          head=st.lists(st.one_of(st.sampled_from(DELTA_EDGES), st.integers(1, 2**19 - 1),
                                  st.integers(2**19, 2**22)), max_size=6),
          seed=st.binary(min_size=4, max_size=8)),
        T("getcfheaders", ftype=u8(), start_height=u32(), stop=gen.b32()),
        T("cfheaders", ftype=u8(), stop=gen.b32(), prev=gen.b32(), **listed(tier)),
        T("getcfcheckpt", ftype=u8(), stop=gen.b32()),
        T("cfcheckpt", ftype=u8(), stop=gen.b32(), **listed(tier)),
        T("block_header", h=header_fields()),
    ]
    return st.one_of(*alts)


def ref_header(h):
    return p2p.header80(h["version"], bytes(h["prev"]), bytes(h["root"]), h["time"], h["bits"],
                        h["nonce"])


def compare_header(blk, h, bucket):
    """parsed Block vs generated wire values (hashes: display order = reversed wire order)"""
    require(blk.version == h["version"], bucket + "/version", f"{blk.version} vs {h['version']}")
    require(blk.prev_block == bytes(h["prev"])[::-1], bucket + "/prev_block")
    require(blk.merkle_root == bytes(h["root"])[::-1], bucket + "/merkle_root")
    require(blk.timestamp == h["time"], bucket + "/timestamp")
    require(blk.bits == struct.pack("<I", h["bits"]), bucket + "/bits")
    require(blk.nonce == struct.pack("<I", h["nonce"]), bucket + "/nonce")


def count_labels(n, ctx):
    if n == 252:
        ctx.label("count=252")
    if n >= 253:
        ctx.label("count>=253")
    if n >= 65536:
        ctx.label("count>=65536")
    if n == 0:
        ctx.label("count=0")


def check_msg(case, ctx):
    t = case["type"]
    trailing = bytes(case["trailing"])
    ctx.label("type:" + t)
    ctx.nontrivial()

    def parse_all(cls, blob, bucket):
        s = BytesIO(blob + trailing)
        m = must(cls.parse, bucket + "_parse", s)
        require(s.tell() == len(blob), bucket + "_parse_consumed", f"{s.tell()} of {len(blob)}")
        return m

    if t == "version":
        ua = expand(case["ua_len"], bytes(case["pat"]))
        if len(ua) >= 253:
            ctx.label("ua>=253")
        want = p2p.version_msg(
            case["version"], case["services"], case["timestamp"], case["recv_services"],
            bytes(case["recv_ip"]), case["recv_port"], case["from_services"], bytes(case["from_ip"]),
            case["from_port"], bytes(case["nonce"]), ua, case["start_height"], case["relay"])
        m = bnet.VersionMessage(
            version=case["version"], services=case["services"], timestamp=case["timestamp"],
            receiver_services=case["recv_services"], receiver_ip=bytes(case["recv_ip"]),
            receiver_port=case["recv_port"], sender_services=case["from_services"],
            sender_ip=bytes(case["from_ip"]), sender_port=case["from_port"],
            nonce=bytes(case["nonce"]), user_agent=ua, latest_block=case["start_height"],
            relay=case["relay"])
        require(m.command == b"version", "messages/version_command")
        got = must(m.serialize, "messages/version_serialize")
        a, b = p2p.VERSION_PORT_OFFSETS

        def strip_ports(x):
            return x[:a] + x[a + 2:b] + x[b + 2:]

        require(len(got) == len(want) and strip_ports(got) == strip_ports(want),
                "messages/version_layout", lambda: f"got={got.hex()} want={want.hex()}")
        if case["recv_port"] >> 8 != case["recv_port"] & 255:
            ctx.label("port_bytes_differ")
        require(got[a:a + 2] == want[a:a + 2] and got[b:b + 2] == want[b:b + 2],
                "messages/version_port_not_network_byte_order",
                lambda: f"ports {case['recv_port']},{case['from_port']}: got {got[a:a+2].hex()},"
                        f"{got[b:b+2].hex()} want {want[a:a+2].hex()},{want[b:b+2].hex()}")
    elif t == "getheaders":
        start, end = bytes(case["start"]), case["end"]
        want = p2p.getheaders_msg(case["version"], [start[::-1]],
                                  bytes(32) if end is None else bytes(end)[::-1])
        kw = {} if end is None else {"end_block": bytes(end)}
        m = bnet.GetHeadersMessage(version=case["version"], start_block=start, **kw)
        require(m.command == b"getheaders", "messages/getheaders_command")
        got = must(m.serialize, "messages/getheaders_serialize")
        require(got == want, "messages/getheaders_layout", f"got={got.hex()} want={want.hex()}")
        ctx.label("hash_stop_default" if end is None else "hash_stop_given")
    elif t == "headers":
        n = case["count"]
        count_labels(n, ctx)
        head = list(case["head"])[:n]
        raws = [ref_header(h) for h in head]
        raws += [derive(case["seed"], i, 80) for i in range(len(head), n)]
        want = p2p.headers_msg(raws)
        require(bnet.HeadersMessage.command == b"headers", "messages/headers_command")
        m = parse_all(bnet.HeadersMessage, want, "messages/headers")
        require(len(m.headers) == n, "messages/headers_count", f"{len(m.headers)} vs {n}")
        for blk, h in zip(m.headers, head):
            compare_header(blk, h, "messages/headers_field")
        for blk, raw in zip(m.headers, raws):
            require(blk.serialize() == raw, "messages/headers_reserialize")
    elif t == "getdata":
        ids = hashes_of(case)
        count_labels(len(ids), ctx)
        types = [case["types"][i % 4] for i in range(len(ids))]
        want = p2p.inv_msg([(ty, h[::-1]) for ty, h in zip(types, ids)])
        m = bnet.GetDataMessage()
        require(m.command == b"getdata", "messages/getdata_command")
        for ty, h in zip(types, ids):
            m.add_data(ty, h)
        got = must(m.serialize, "messages/getdata_serialize")
        require(got == want, "messages/getdata_layout", f"n={len(ids)} got={got[:80].hex()}")
    elif t in ("ping", "pong"):
        nonce = bytes(case["nonce"])
        cls = bnet.PingMessage if t == "ping" else bnet.PongMessage
        want = p2p.ping_msg(int.from_bytes(nonce, "little"))
        require(cls.command == t.encode(), f"messages/{t}_command")
        got = must(cls(nonce).serialize, f"messages/{t}_serialize")
        require(got == want, f"messages/{t}_layout")
        m = parse_all(cls, want, f"messages/{t}")
        require(m.nonce == nonce, f"messages/{t}_parse_value")
        require(must(m.serialize, f"messages/{t}_reserialize") == want, f"messages/{t}_reserialize_differs")
    elif t in ("getcfilters", "getcfheaders"):
        stop = bytes(case["stop"])
        cls = bcf.GetCFiltersMessage if t == "getcfilters" else bcf.GetCFHeadersMessage
        want = p2p.getcfilters_msg(case["ftype"], case["start_height"], stop[::-1])
        m = cls(filter_type=case["ftype"], start_height=case["start_height"], stop_hash=stop)
        require(m.command == t.encode(), f"messages/{t}_command")
        got = must(m.serialize, f"messages/{t}_serialize")
        require(got == want, f"messages/{t}_layout", f"got={got.hex()} want={want.hex()}")
    elif t == "getcfcheckpt":
        stop = bytes(case["stop"])
        want = p2p.getcfcheckpt_msg(case["ftype"], stop[::-1])
        m = bcf.GetCFCheckPointMessage(filter_type=case["ftype"], stop_hash=stop)
        require(m.command == b"getcfcheckpt", "messages/getcfcheckpt_command")
        got = must(m.serialize, "messages/getcfcheckpt_serialize")
        require(got == want, "messages/getcfcheckpt_layout", f"got={got.hex()} want={want.hex()}")
    elif t == "cfilter":
        n = case["n"]
        deltas = list(case["head"])[:n]
        for i in range(len(deltas), n):
            deltas.append(1 + int.from_bytes(derive(case["seed"], i, 3), "big") % (2**21))
        values, cur = [], 0
        for d in deltas:
            cur += d
            values.append(cur)
        fbytes = p2p.gcs_bytes(values)
        if len(fbytes) >= 253:
            ctx.label("fbytes>=253")
        if n == 0:
            ctx.label("empty_filter")
        block = bytes(case["block"])
        want = p2p.cfilter_msg(case["ftype"], block, fbytes)
        require(bcf.CFilterMessage.command == b"cfilter", "messages/cfilter_command")
        m = parse_all(bcf.CFilterMessage, want, "messages/cfilter")
        require(m.filter_type == case["ftype"], "messages/cfilter_filter_type")
        require(m.block_hash == block[::-1], "messages/cfilter_block_hash")
        require(m.filter_bytes == fbytes, "messages/cfilter_filter_bytes",
                f"{len(m.filter_bytes)} vs {len(fbytes)} bytes")
        m2 = must(bcf.CFilterMessage, "messages/cfilter_construct", case["ftype"], block[::-1], fbytes)
        require(m2 == m, "messages/cfilter_eq")
    elif t == "cfheaders":
        hashes = hashes_of(case)
        count_labels(len(hashes), ctx)
        stop, prev = bytes(case["stop"]), bytes(case["prev"])
        want = p2p.cfheaders_msg(case["ftype"], stop, prev, hashes)
        require(bcf.CFHeadersMessage.command == b"cfheaders", "messages/cfheaders_command")
        m = parse_all(bcf.CFHeadersMessage, want, "messages/cfheaders")
        require(m.filter_type == case["ftype"], "messages/cfheaders_filter_type")
        require(m.stop_hash == stop[::-1], "messages/cfheaders_stop_hash")
        require(m.previous_filter_header == prev, "messages/cfheaders_previous_filter_header")
        require(m.filter_hashes == hashes, "messages/cfheaders_filter_hashes")
        require(m.last_header == p2p.filter_header_chain(prev, hashes), "messages/cfheaders_last_header")
    elif t == "cfcheckpt":
        hdrs = hashes_of(case)
        count_labels(len(hdrs), ctx)
        stop = bytes(case["stop"])
        want = p2p.cfcheckpt_msg(case["ftype"], stop, hdrs)
        require(bcf.CFCheckPointMessage.command == b"cfcheckpt", "messages/cfcheckpt_command")
        m = parse_all(bcf.CFCheckPointMessage, want, "messages/cfcheckpt")
        require(m.filter_type == case["ftype"], "messages/cfcheckpt_filter_type")
        require(m.stop_hash == stop[::-1], "messages/cfcheckpt_stop_hash")
        require(m.filter_headers == hdrs, "messages/cfcheckpt_filter_headers")
    elif t == "block_header":
        h = case["h"]
        want = ref_header(h)
        blk = Block(h["version"], bytes(h["prev"])[::-1], bytes(h["root"])[::-1], h["time"],
                    struct.pack("<I", h["bits"]), struct.pack("<I", h["nonce"]))
        got = must(blk.serialize, "messages/block_header_serialize")
        require(got == want, "messages/block_header_layout", f"got={got.hex()} want={want.hex()}")
        s = BytesIO(want + trailing)
        b2 = must(Block.parse_header, "messages/block_header_parse", s)
        require(s.tell() == 80, "messages/block_header_parse_consumed")
        compare_header(b2, h, "messages/block_header_field")
        require(b2.serialize() == want, "messages/block_header_reserialize")
        b3 = must(Block.parse_header, "messages/block_header_parse_hex", hex=want.hex())
        require(b3.serialize() == want, "messages/block_header_parse_hex_differs")
        # the encoding follows the object's fields, also when they change after a first encoding
        h2 = dict(h, nonce=(h["nonce"] + 1) % 2**32, time=(h["time"] ^ 1))
        b2.nonce = struct.pack("<I", h2["nonce"])
        b2.timestamp = h2["time"]
        require(b2.serialize() == ref_header(h2), "messages/block_header_layout_after_field_change")
    else:
        raise AssertionError(t)


SUBS = [
    Sub("envelope_roundtrip", check_roundtrip, strategy=roundtrip_strategy,
        budget={"quick": 16000, "thorough": 500000},
        required=[f"cmdlen={n}" for n in range(13)] + ["net:" + n for n in NETS]
        + [f"plen={e}" for e in (0, 1, 252, 253, 65535, 65536, 100000)]),
    Sub("envelope_rejects", check_rejects, strategy=rejects_strategy,
        budget={"quick": 16000, "thorough": 500000},
        required=["kind:" + k for k in REJ_KINDS] + ["accepted", "rejected"],
        nontrivial_rule="every invalid envelope class (the honest control class is trivial)"),
    Sub("envelope_corruption", check_corruption, strategy=corruption_strategy,
        budget={"quick": 2500, "thorough": 60000},
        required=["ref_rejects:magic", "ref_rejects:length", "ref_rejects:checksum",
                  "ref_rejects:payload", "with_trailing_bytes", "stream_ends_with_envelope"],
        nontrivial_rule="one case = one envelope x every byte position x 8-9 masks"),
    Sub("primitives", check_prim, strategy=prim_strategy,
        budget={"quick": 40000, "thorough": 1500000},
        required=["op:" + o for o in PRIM_OPS] + [f"varint_width={w}" for w in (1, 3, 5, 9)]
        + ["varint_edge", "strlen=0xfc", "strlen=0xfd", "strlen=0xffff", "strlen=0x10000",
           "strlen=0x186a0", "width=1", "width=2", "width=4", "width=8", "width=32", "width=other",
           "negative", "too_large"] + ["sel:" + s for s in sorted(set(FIXED_SEL))]),
    Sub("messages", check_msg, strategy=msg_strategy,
        budget={"quick": 26000, "thorough": 800000},
        required=["type:" + t for t in MSG_TYPES] + ["count=0", "count=252", "count>=253",
                                                     "count>=65536", "ua>=253", "fbytes>=253",
                                                     "empty_filter", "port_bytes_differ",
                                                     "hash_stop_default", "hash_stop_given"]),
]


# ------------------------------------------------------------------- byte fuzzing (added by the lead)

def _fuzz_seeds(tier):
    return [p2p.envelope("mainnet", b"verack", b""), p2p.envelope("testnet", b"ping", b"\x01" * 8),
            p2p.envelope("mainnet", b"version", bytes(range(90))) + b"trailing"]


def check_fuzz_envelope(case, ctx):
    """arbitrary bytes: NetworkEnvelope.parse accepts exactly what the reference parser accepts, with the
    same command and payload, for every network; re-serialising an accepted envelope reproduces its bytes"""
    data = case["data"]
    for net in ("mainnet", "testnet", "signet", "regtest"):
        want = p2p.parse_envelope(data, net)
        s = BytesIO(data)
        st_, env = attempt(NetworkEnvelope.parse, s, net)
        if want is None:
            require(st_ == "exc", f"fuzz/envelope_accepted_where_reference_rejects:{net}", data.hex()[:200])
            ctx.label("rejected")
        else:
            ctx.label("accepted")
            ctx.nontrivial()
            require(st_ == "ok", f"fuzz/valid_envelope_rejected:{net}", type(env).__name__)
            cmd, payload, used = want
            require(env.payload == payload, "fuzz/envelope_payload")
            require(s.tell() == used, "fuzz/envelope_bytes_consumed")
            core_cmd = cmd.rstrip(b"\x00")
            if b"\x00" not in core_cmd:  # commands with embedded NUL bytes are outside the stated domain
                require(env.command == core_cmd, "fuzz/envelope_command")
                require(env.serialize() == data[:used], "fuzz/envelope_reserialisation")


SUBS.append(Sub("fuzz_envelope", check_fuzz_envelope, kind="fuzz", seeds=_fuzz_seeds, max_len=512,
                budget={"quick": 8000, "thorough": 1600000}, required=["accepted", "rejected"],
                nontrivial_rule="input accepted as an envelope by the reference parser",
                doc="quick: Hypothesis byte-level mutations of valid envelopes; thorough: atheris campaign"))
