"""C15 SLIP39 shares: any k recover, fewer never do, corruption is detected."""
import hashlib
import itertools

from hypothesis import strategies as st

import buidl.shamir as shamir
from buidl.shamir import Share, ShareSet

from vf.core import Discard, Sub, attempt, must, require
from vf.ref import slip39 as ref

RULE = (
    "threshold: 16/32-byte secret -> BIP39 mnemonic (independent encoder), passphrase, exponent "
    "0..2 (weighted to 0), (k, n) sampled uniformly over all 136 pairs; all_136_pairs runs the "
    "same oracle on EVERY pair x {128, 256} bits every run (every pair is a required class); "
    "buidl.shamir.randbits replaced by a SHA-256 counter stream seeded from the case; subsets are "
    "a generated permutation cut at a generated size >= k / exactly k / < k. Oracles: buidl "
    "recovers the mnemonic from its own shares and from shares produced by an independent "
    "SLIP-0039 implementation; the independent implementation recovers the secret from buidl's "
    "shares and finds every share on the polynomial. all_subsets_small: EVERY subset of the n "
    "shares for every (k, n) with n <= 6 (thorough 9). no_mixing: two splits differing in "
    "id / exponent / k / n / length / secret only. share_codec, corruption (1..3 word "
    "substitutions incl. all 1023 alternatives at a position), crypt_inverse against the "
    "reference Feistel, GF(256) tables exhaustively against carry-less multiplication, "
    "interpolation against polynomial evaluation at all 256-k points. Non-trivial: k >= 2 "
    "(sharing subs); every case elsewhere."
)
ASSUMPTIONS = [
    "buidl.shamir.randbits (secrets.randbits) is replaced per case by a deterministic generator "
    "seeded from the case record and restored in finally",
    "ShareSet.interpolate is only exercised at x not among the share indices (the only way the "
    "library calls it); its behaviour at x equal to a share index is outside the property",
    "share_codec/corruption use exponent fields 0..15 (where the 2019 and 2023 texts of SLIP-0039 "
    "agree) and share values of 128 or 256 bits only; substituted words are other words of the "
    "1024-word list (the 4-letter abbreviations the library also accepts denote the same word)",
    "same-identifier mixtures of two different secrets are detected by the 4-byte digest only "
    "with probability 1 - 2^-32 and only for k >= 2: k = 1 is excluded from that class by "
    "construction and a case where the independent implementation accepts is discarded",
]

PAIRS = [(k, n) for n in range(1, 17) for k in range(1, n + 1)]
assert len(PAIRS) == 136


def selftest():
    ref.selftest()


class patched_randbits:
    def __init__(self, rnd):
        self.rnd = rnd

    def __enter__(self):
        self.orig = shamir.randbits
        shamir.randbits = self.rnd
        return self.rnd

    def __exit__(self, *a):
        shamir.randbits = self.orig
        return False


def lib_generate(bucket, mnemonic, k, n, pw, e, seed, identifier=None):
    rnd = ref.DetRand(seed, identifier)
    with patched_randbits(rnd):
        shares = must(ShareSet.generate_shares, bucket, mnemonic, k, n, passphrase=pw, exponent=e)
    require(isinstance(shares, list) and all(isinstance(s, str) for s in shares),
            bucket + ":not_a_list_of_str")
    return shares


def lib_recover(shares, pw):
    """('ok', mnemonic) | ('rejected', why)"""
    st_, v = attempt(ShareSet.recover_mnemonic, list(shares), pw)
    if st_ == "exc":
        return "rejected", f"{type(v).__name__}: {v}"[:200]
    if not v:
        return "rejected", repr(v)
    return "ok", v


# ---------------------------------------------------------------- strategies


# Hypothesis (6.168) builds most examples by mutating earlier ones (copying spans between draws of
# the same kind), which makes several independent st.binary() draws in one case collapse to equal or
# all-zero values in the majority of cases (measured: 64 % all-zero seeds).  All byte material is
# therefore DERIVED, inside the strategy, from a hash of the small 'control' draws: any change of
# any control gives fresh bytes.  The case record contains the derived values, so ``check`` remains
# a pure function of the case.


def derived(controls, build):
    controls = dict(controls, nonce=st.integers(0, 2**32 - 1))

    def go(d):
        rnd = ref.DetRand(hashlib.sha256(repr(sorted(d.items())).encode()).digest())
        d.pop("nonce")
        return build(d, rnd)
    return st.fixed_dictionaries(controls).map(go)


def mk_secret(rnd, long, kind):
    n = 32 if long else 16
    edges = [bytes(n), b"\xff" * n, bytes(n - 1) + b"\x01", b"\x80" + bytes(n - 1),
             b"\x00\x00" + b"\xa5" * (n - 2)]
    raw = rnd.take(n)
    return edges[kind - 10] if kind >= 10 else raw


SECRET_KIND = st.integers(0, 14)
PASS_EDGES = [b"", b"TREZOR", b"\x00", b" ", b"p" * 64, b"q" * 65, b"\xff" * 130,
              "pässwörd".encode(), b"correct horse battery staple"]
PASS_KIND = st.integers(0, 11 + len(PASS_EDGES))


def mk_pass(rnd, kind):
    raw = rnd.take(1 + rnd.take(1)[0] % 48)
    return PASS_EDGES[kind - 12] if kind >= 12 else raw


def mk_perm(rnd):
    keys = rnd.take(16)
    return sorted(range(16), key=lambda i: (keys[i], i))


def exps():
    return st.sampled_from([0, 0, 0, 0, 0, 1, 2])


IDS = st.one_of(st.sampled_from([0, 1, 2**15 - 1, 2**14, 0x00FF, 0x7F00]), st.integers(0, 2**15 - 1))


def threshold_strategy(tier):
    def build(d, rnd):
        return {
            "secret": mk_secret(rnd, d["long"], d["sk"]), "pw": mk_pass(rnd, d["pk"]), "e": d["e"],
            "kn": list(d["kn"]), "seed": rnd.take(8), "perm": mk_perm(rnd), "r_ge": d["r_ge"],
            "r_lt": d["r_lt"], "ref_id": d["ref_id"],
        }
    return derived({
        "long": st.booleans(), "sk": SECRET_KIND, "pk": PASS_KIND, "e": exps(),
        "kn": st.sampled_from(PAIRS), "r_ge": st.integers(0, 15), "r_lt": st.integers(0, 15),
        "ref_id": IDS,
    }, build)


def check_fields(shares, k, n, e, nbytes, bucket):
    """buidl's share texts decoded by the independent implementation"""
    dec = []
    for s in shares:
        try:
            dec.append(ref.decode_share(s))
        except ref.Slip39Error as ex:
            require(False, bucket + "/share_invalid_per_spec", f"{ex}: {s}")
    require(len({d["id"] for d in dec}) == 1, bucket + "/identifiers_differ_within_split")
    for d in dec:
        require(d["e"] == e, bucket + "/exponent_field", f"{d['e']} != {e}")
        require(d["gt"] == k and d["gc"] == n, bucket + "/k_n_fields",
                f"{d['gt']}-of-{d['gc']} for {k}-of-{n}")
        require(len(d["value"]) == nbytes, bucket + "/value_length")
    require(len({(d["gi"], d["mi"]) for d in dec}) == len(dec), bucket + "/duplicate_share_index")
    require(len(set(shares)) == len(shares), bucket + "/duplicate_share_text")
    return dec


def check_threshold(case, ctx):
    secret, pw, e = bytes(case["secret"]), bytes(case["pw"]), case["e"]
    k, n = case["kn"]
    perm = list(case["perm"])
    mn = ref.bip39_encode(secret)
    ctx.label(f"kn={k}/{n}")
    ctx.label(f"bits={len(secret) * 8}")
    ctx.label(f"e={e}")
    ctx.nontrivial(k >= 2)
    shares = lib_generate("threshold/generate", mn, k, n, pw, e, bytes(case["seed"]))
    require(1 <= len(shares) <= n, "threshold/share_count_out_of_range", f"{len(shares)} for n={n}")
    avail = len(shares)
    check_fields(shares, k, n, e, len(secret), "threshold")
    order = [p for p in perm if p < avail]
    # any >= k shares, in any order
    size = min(avail, k + case["r_ge"] % (n - k + 1))
    if size >= k:
        sub = [shares[i] for i in order[:size]]
        ctx.label("ge:exactly_k" if size == k else "ge:more_than_k")
        if size == n:
            ctx.label("ge:all_n")
        st_, got = lib_recover(sub, pw)
        require(st_ == "ok" and got == mn, "threshold/k_or_more_do_not_recover",
                f"{k}-of-{n}, {size} shares {order[:size]}: {got!r} want {mn!r}")
    if avail >= k:
        sub_k = [shares[i] for i in order[::-1][:k]]
        st_, got = lib_recover(sub_k, pw)
        require(st_ == "ok" and got == mn, "threshold/exactly_k_do_not_recover",
                f"{k}-of-{n} shares {order[::-1][:k]}: {got!r}")
        # the independent implementation recovers from buidl's shares ...
        try:
            back = ref.recover(sub_k, pw)
        except ref.Slip39Error as ex:
            back = ex
        require(back == secret, "threshold/reference_cannot_recover_from_library_shares",
                f"{k}-of-{n}: {back!r}")
        # one ShareSet object asked repeatedly (a wrong passphrase cannot be detected in SLIP39: it yields
        # another secret, and the user simply tries again on the same object)
        ss = must(ShareSet, "threshold/ShareSet", [Share.parse(m) for m in sub_k])
        wrong = pw + b"?"
        st0, other = attempt(ss.recover, wrong)
        require(st0 == "ok" and other == ref.recover(sub_k, wrong), "threshold/wrong_passphrase_result",
                f"{k}-of-{n}: {other!r}")
        for attempt_no in (1, 2):
            st_, got = attempt(ss.recover, pw)
            require(st_ == "ok" and got == secret, "threshold/repeated_recover_on_one_share_set",
                    f"{k}-of-{n}, call {attempt_no} after a call with another passphrase: {got!r}")
        ctx.label("share_set_object_reused")
        # ... and every share lies on the same polynomial
        try:
            ref.recover_lenient(shares)
        except ref.Slip39Error as ex:
            require(False, "threshold/shares_inconsistent", f"{k}-of-{n}: {ex}")
    # fewer than k (including none)
    size_lt = min(avail, case["r_lt"] % k)
    sub = [shares[i] for i in order[:size_lt]]
    ctx.label("lt:empty" if size_lt == 0 else ("lt:k-1" if size_lt == k - 1 else "lt:other"))
    st_, got = lib_recover(sub, pw)
    require(st_ == "rejected", "threshold/fewer_than_k_return_a_secret",
            f"{k}-of-{n}, {size_lt} shares -> {got!r}")
    # shares made by the independent implementation are recovered by buidl
    rnd = ref.DetRand(b"ref" + bytes(case["seed"]))
    rshares = ref.generate(secret, k, n, pw, e, case["ref_id"], rnd.take)
    rorder = [p for p in perm if p < n]
    rsize = k + case["r_ge"] % (n - k + 1)
    st_, got = lib_recover([rshares[i] for i in rorder[:rsize]], pw)
    require(st_ == "ok" and got == mn, "threshold/reference_shares_not_recovered",
            f"{k}-of-{n}, shares {rorder[:rsize]}: {got!r}")
    st_, got = lib_recover([rshares[i] for i in rorder[: case["r_lt"] % k]], pw)
    require(st_ == "rejected", "threshold/fewer_than_k_reference_shares_return_a_secret",
            f"{k}-of-{n}: {got!r}")
    require(avail == n, "threshold/share_count" + (":k=1" if k == 1 else ""),
            f"{k}-of-{n} produced {avail} shares")


def pairs136_enum(tier):
    """every (k, n) x both secret sizes, every run; the rest of the case is derived from the pair"""
    for bits in (128, 256):
        for k, n in PAIRS:
            rnd = ref.DetRand(f"pair/{bits}/{k}/{n}".encode())
            b = rnd.take(4)
            keys = rnd.take(16)
            yield {
                "secret": rnd.take(bits // 8), "pw": rnd.take(b[0] % 12),
                "e": (0, 0, 0, 1, 0, 0, 2)[b[1] % 7], "kn": [k, n], "seed": rnd.take(8),
                "perm": sorted(range(16), key=lambda i: (keys[i], i)),
                "r_ge": b[2] % 16, "r_lt": b[3] % 16, "ref_id": int.from_bytes(rnd.take(2), "big") >> 1,
            }


# ------------------------------------------------------- all subsets, small n


def subsets_enum(tier):
    nmax = 6 if tier == "quick" else 9
    for bits in (128, 256):
        for n in range(1, nmax + 1):
            for k in range(1, n + 1):
                yield {"bits": bits, "k": k, "n": n}


def check_all_subsets(case, ctx):
    bits, k, n = case["bits"], case["k"], case["n"]
    tag = f"{bits}/{k}/{n}".encode()
    secret = hashlib.sha256(b"secret" + tag).digest()[: bits // 8]
    pw = b"" if (k + n) % 2 else b"TREZOR"
    mn = ref.bip39_encode(secret)
    ctx.label(f"n={n}")
    ctx.nontrivial(k >= 2)
    shares = lib_generate("subsets/generate", mn, k, n, pw, 0, tag)
    avail = len(shares)
    require(1 <= avail <= n, "subsets/share_count_out_of_range")
    for size in range(0, avail + 1):
        for comb in itertools.combinations(range(avail), size):
            if size % 2:
                comb = comb[::-1]
            st_, got = lib_recover([shares[i] for i in comb], pw)
            if size >= k:
                require(st_ == "ok" and got == mn, "subsets/k_or_more_do_not_recover",
                        f"{k}-of-{n} subset {comb}: {got!r}")
            else:
                require(st_ == "rejected", "subsets/fewer_than_k_return_a_secret",
                        f"{k}-of-{n} subset {comb}: {got!r}")
            ctx.label("subsets")
    require(avail == n, "subsets/share_count" + (":k=1" if k == 1 else ""),
            f"{k}-of-{n} produced {avail} shares")


# ------------------------------------------------------------------ no mixing

MIX_KINDS = ["diff_id", "diff_exponent", "diff_k", "diff_n", "diff_length", "same_id_diff_secret"]
MIX_MODES = ["A_sufficient_plus_foreign", "exact_k_split", "free"]
PAIRS2 = [(k, n) for (k, n) in PAIRS if n >= 2]


def mixing_strategy(tier):
    def build(d, rnd):
        pk = d.pop("pk")
        return dict(
            d, kn=list(d["kn"]), s16=[rnd.take(16), rnd.take(16)], s32=[rnd.take(32), rnd.take(32)],
            pw=mk_pass(rnd, pk), seeds=[rnd.take(8), rnd.take(8)], perm=mk_perm(rnd),
            r=list(rnd.take(4)),
        )
    return derived({
        "a_is_32": st.booleans(), "pk": PASS_KIND, "e": st.sampled_from([0, 0, 0, 1, 2]),
        "kn": st.sampled_from(PAIRS2), "kind": st.sampled_from(MIX_KINDS),
        "mode": st.sampled_from(MIX_MODES), "id": IDS, "delta": st.integers(1, 2**15 - 1),
        "b_first": st.booleans(),
    }, build)


def check_mixing(case, ctx):
    kind, mode = case["kind"], case["mode"]
    pw, e = bytes(case["pw"]), case["e"]
    k, n = case["kn"]
    r = case["r"]
    perm = list(case["perm"])
    sa = bytes((case["s32"] if case["a_is_32"] else case["s16"])[0])
    sb = bytes((case["s32"] if case["a_is_32"] else case["s16"])[1])
    ida = idb = case["id"]
    kb, nb, eb = k, n, e
    if kind == "diff_n":
        cands = [m for m in range(k, 17) if m != n]
        if cands:
            nb = cands[r[0] % len(cands)]
        else:
            kind = "diff_id"  # (16, 16) has no other n
    if kind == "diff_id":
        idb = (ida + case["delta"]) % 2**15
    elif kind == "diff_exponent":
        eb = (e + 1 + r[0] % 2) % 3
    elif kind == "diff_k":
        kb = 1 + (k - 1 + 1 + r[0] % (n - 1)) % n
    elif kind == "diff_length":
        sb = bytes((case["s16"] if case["a_is_32"] else case["s32"])[1])
    elif kind == "same_id_diff_secret":
        if k == 1:
            k = kb = 2
    ctx.label("kind:" + kind)
    A = lib_generate("mixing/generate", ref.bip39_encode(sa), k, n, pw, e,
                     bytes(case["seeds"][0]), ida)
    B = lib_generate("mixing/generate", ref.bip39_encode(sb), kb, nb, pw, eb,
                     bytes(case["seeds"][1]), idb)
    da = check_fields(A, k, n, e, len(sa), "mixing")[0]
    db = check_fields(B, kb, nb, eb, len(sb), "mixing")[0]
    if (da["id"] != db["id"]) != (kind == "diff_id"):
        ctx.label("identifier_pin_ineffective")  # the reference below still decides
    # choose the mixture: at least one share of each split
    oa = [p for p in perm if p < len(A)]
    if mode == "A_sufficient_plus_foreign" and len(A) >= k:
        a = k + r[1] % (len(A) - k + 1)
        b = 1
    elif mode == "exact_k_split" and k >= 2 and len(A) >= k - 1:
        a = 1 + r[1] % (k - 1)
        b = min(len(B), k - a)
    else:
        mode = "free"
        a = 1 + r[1] % len(A)
        b = 1 + r[2] % len(B)
    pick_a = oa[:a]
    ob = [p for p in perm[::-1] if p < len(B)]
    ob = [p for p in ob if p not in pick_a] + [p for p in ob if p in pick_a]
    pick_b = ob[:b]
    ctx.label("mode:" + mode)
    overlap = bool(set(pick_a) & set(pick_b))
    ctx.label("index_overlap" if overlap else "indices_disjoint")
    total = len(pick_a) + len(pick_b)
    ctx.label("total>=k" if total >= max(k, kb) else "total<k")
    ctx.nontrivial(total >= min(k, kb))
    mix_a, mix_b = [A[i] for i in pick_a], [B[i] for i in pick_b]
    mix = mix_b + mix_a if case["b_first"] else mix_a + mix_b
    if r[3] % 3 == 0 and len(mix) > 2:  # interleave
        mix = mix[::2] + mix[1::2]
    # the independent implementation must reject the mixture too
    try:
        ref.recover_lenient(mix)
        ref_accepts = True
    except ref.Slip39Error:
        ref_accepts = False
    if ref_accepts:
        if da["id"] == db["id"]:
            raise Discard("digest collision (2^-32)")
        raise AssertionError("reference accepted a mixture of two splits")
    st_, got = lib_recover(mix, pw)
    require(st_ == "rejected", "mixing/mixture_returns_a_secret:" + kind,
            f"A={k}-of-{n} id={da['id']} picks {pick_a}; B={kb}-of-{nb} id={db['id']} picks "
            f"{pick_b}: {got!r}")
    # sanity of the construction: each split alone still recovers
    if len(A) >= k:
        st_, got = lib_recover(A[:k], pw)
        require(st_ == "ok" and got == ref.bip39_encode(sa), "mixing/unmixed_split_does_not_recover")


# ------------------------------------------------------------------- codec


FIELD_CONTROLS = {
    "id": IDS, "e": st.one_of(st.sampled_from([0, 1, 2]), st.integers(0, 15)),
    "gc": st.integers(1, 16), "gt_r": st.integers(0, 15), "gi_r": st.integers(0, 15),
    "mi": st.integers(0, 15), "mt": st.integers(1, 16), "long": st.booleans(),
    "edge": st.integers(0, 14),
}


def mk_fields(d, rnd):
    """flat draws (no flatmap); gt <= gc and gi < gc by construction"""
    n = 32 if d["long"] else 16
    raw = rnd.take(n)
    edges = [bytes(n), b"\xff" * n, bytes(n - 1) + b"\x01", b"\x00" + b"\xff" * (n - 1),
             b"\x00" + raw[1:]]
    value = edges[d["edge"] - 10] if d["edge"] >= 10 else raw
    gc = d["gc"]
    return {"id": d["id"], "e": d["e"], "gc": gc, "gt": 1 + d["gt_r"] % gc,
            "gi": d["gi_r"] % gc, "mi": d["mi"], "mt": d["mt"], "value": value}


def ref_text(f):
    return ref.encode_share(f["id"], f["e"], f["gi"], f["gt"], f["gc"], f["mi"], f["mt"],
                            bytes(f["value"]))


def codec_strategy(tier):
    return derived(FIELD_CONTROLS, lambda d, rnd: {"f": mk_fields(d, rnd)})


def compare_share(s, f, bucket):
    value = bytes(f["value"])
    got = (s.id, s.exponent, s.group_index, s.group_threshold, s.group_count, s.member_index,
           s.member_threshold, s.value, bytes(s.bytes), s.share_bit_length)
    want = (f["id"], f["e"], f["gi"], f["gt"], f["gc"], f["mi"], f["mt"],
            int.from_bytes(value, "big"), value, len(value) * 8)
    require(got == want, bucket, f"{got} != {want}")


def check_codec(case, ctx):
    f = case["f"]
    value = bytes(f["value"])
    ctx.nontrivial()
    ctx.label(f"bits={len(value) * 8}")
    if value[0] == 0:
        ctx.label("leading_zero_value")
    m = ref_text(f)
    s = must(Share.parse, "codec/parse_valid_share", m)
    compare_share(s, f, "codec/parsed_fields")
    out = must(s.mnemonic, "codec/encode")
    require(out == m, "codec/parse_encode_roundtrip", f"{out!r} != {m!r}")
    s2 = must(Share, "codec/construct", len(value) * 8, f["id"], f["e"], f["gi"], f["gt"], f["gc"],
              f["mi"], f["mt"], int.from_bytes(value, "big"))
    out2 = must(s2.mnemonic, "codec/encode")
    require(out2 == m, "codec/encoding_differs_from_reference", f"{out2!r} != {m!r}")
    s3 = must(Share.parse, "codec/parse_own_encoding", out2)
    compare_share(s3, f, "codec/encode_parse_roundtrip")


# -------------------------------------------------------------- corruption


def corruption_strategy(tier):
    def build(d, rnd):
        return {
            "f": mk_fields(d, rnd), "mode": d["mode"], "ne": d["ne"], "region": d["region"],
            "pos": list(rnd.take(3)),
            "delta": [1 + int.from_bytes(rnd.take(2), "big") % 1023 for _ in range(3)],
        }
    return derived(dict(
        FIELD_CONTROLS, mode=st.sampled_from(["multi", "multi", "multi", "multi", "single_all"]),
        ne=st.sampled_from([1, 2, 3, 3]),
        region=st.sampled_from(["any", "any", "header", "checksum", "value"]),
    ), build)


def check_corruption(case, ctx):
    f = case["f"]
    m = ref_text(f)
    idx = ref.words_to_indices(m)
    nw = len(idx)
    ctx.label(f"words={nw}")
    ctx.nontrivial()
    region = case["region"]
    lo, hi = {"any": (0, nw), "header": (0, 4), "checksum": (nw - 3, nw), "value": (4, nw - 3)}[region]
    free = list(range(lo, hi))  # distinct positions by construction
    positions = []
    for p in list(case["pos"])[: case["ne"]]:
        positions.append(free.pop(p % len(free)))
    for p in positions:
        ctx.label("pos:" + ("header" if p < 4 else "checksum" if p >= nw - 3 else "value"))
    must(Share.parse, "corruption/valid_share_rejected", m)
    if case["mode"] == "single_all":
        p = positions[0]
        ctx.label("single_all")
        for alt in range(1024):
            if alt == idx[p]:
                continue
            bad = idx[:p] + [alt] + idx[p + 1:]
            assert not ref.rs1024_verify(bad)
            text = " ".join(ref.WORDS[i] for i in bad)
            st_, got = attempt(Share.parse, text)
            require(st_ == "exc" or not got, "corruption/one_word_substitution_accepted",
                    f"position {p}: {ref.WORDS[idx[p]]} -> {ref.WORDS[alt]} in {m!r}")
            ctx.label("substitutions")
        return
    bad = list(idx)
    for p, d in zip(positions, case["delta"]):
        bad[p] = (bad[p] + d) % 1024
    ne = len(positions)
    ctx.label(f"errors={ne}")
    assert not ref.rs1024_verify(bad), "RS1024 detects up to 3 errors"
    text = " ".join(ref.WORDS[i] for i in bad)
    st_, got = attempt(Share.parse, text)
    require(st_ == "exc" or not got, f"corruption/{ne}_word_substitution_accepted",
            f"positions {positions}: {text!r} from {m!r}")
    st_, got = lib_recover([text], b"")
    require(st_ == "rejected", f"corruption/{ne}_word_substitution_recovered", f"{text!r}")
    ctx.label("substitutions")


# ------------------------------------------------------------------- crypt


def crypt_strategy(tier):
    def build(d, rnd):
        return {"payload": mk_secret(rnd, d["long"], d["sk"]), "id": d["id"], "e": d["e"],
                "pw": mk_pass(rnd, d["pk"])}
    return derived({"long": st.booleans(), "sk": SECRET_KIND, "pk": PASS_KIND, "id": IDS,
                    "e": exps()}, build)


def check_crypt(case, ctx):
    payload, ident, e, pw = bytes(case["payload"]), case["id"], case["e"], bytes(case["pw"])
    ctx.nontrivial()
    ctx.label(f"e={e}")
    ctx.label(f"bytes={len(payload)}")
    if len(pw) > 63:
        ctx.label("passphrase>=hmac_block")
    if not pw:
        ctx.label("passphrase_empty")
    enc = must(ShareSet.encrypt, "crypt/encrypt", payload, ident, e, pw)
    want = ref.encrypt(payload, pw, e, ident)
    require(enc == want, "crypt/encrypt_differs_from_reference",
            f"id={ident} e={e} pw={pw!r}: {bytes(enc).hex()} != {want.hex()}")
    holder = must(Share, "crypt/construct", len(payload) * 8, ident, e, 0, 1, 1, 0, 1, 0)
    ss = must(ShareSet, "crypt/construct_set", [holder])
    dec = must(ss.decrypt, "crypt/decrypt", enc, pw)
    require(dec == payload, "crypt/decrypt_does_not_invert_encrypt",
            f"id={ident} e={e}: {bytes(dec).hex()} != {payload.hex()}")
    dec2 = must(ss.decrypt, "crypt/decrypt", payload, pw)
    require(dec2 == ref.decrypt(payload, pw, e, ident), "crypt/decrypt_differs_from_reference")
    enc2 = must(ShareSet.encrypt, "crypt/encrypt", dec2, ident, e, pw)
    require(enc2 == payload, "crypt/encrypt_does_not_invert_decrypt")
    if e == 0 and not pw:
        d3 = must(ss.decrypt, "crypt/decrypt_default_passphrase", enc)
        require(d3 == payload, "crypt/default_passphrase_is_not_empty")


# ---------------------------------------------------------------- GF(256)


def tables_enum(tier):
    for i in range(255):
        yield {"i": i}


def check_tables(case, ctx):
    i = case["i"]
    ctx.nontrivial()
    exp, log2 = ShareSet.exp, ShareSet.log2
    if i == 0:
        require(len(exp) == 255 and len(log2) == 256, "gf256/table_sizes")
        require(sorted(exp) == list(range(1, 256)), "gf256/exp_is_not_a_permutation_of_1..255")
    a = exp[i]
    require(a == ref.gf256_pow(3, i), "gf256/exp_table", f"exp[{i}]={a} want {ref.gf256_pow(3, i)}")
    require(log2[a] == i, "gf256/log_table", f"log[{a}]={log2[a]} want {i}")
    for b in range(1, 256):
        got = exp[(log2[a] + log2[b]) % 255]
        require(got == ref.gf256_mul(a, b), "gf256/table_product", f"{a}*{b}: {got}")
        got = exp[(log2[a] - log2[b]) % 255]
        require(got == ref.gf256_mul(a, ref.gf256_inv(b)), "gf256/table_quotient", f"{a}/{b}")
        ctx.label("products")


Y1 = bytes(range(256))
Y2 = bytes((j * 7 + 13) % 256 for j in range(256))


def pairs_enum(tier):
    for x1 in range(256):
        yield {"x1": x1}


def check_pairs(case, ctx):
    """k = 1 and k = 2 interpolation identities over every pair of share indices and every byte
    value; targets: the two indices used by recovery (quick) or all 254 others (thorough)."""
    x1 = case["x1"]
    ctx.nontrivial()
    targets = [254, 255] if ctx.tier == "quick" else list(range(256))
    for x in range(256):
        if x != x1:
            got = ShareSet.interpolate(x, [(x1, Y1)])
            require(got == Y1, "gf256/constant_interpolation", f"x1={x1} x={x}")
    for x2 in range(256):
        if x2 == x1:
            continue
        pts = [(x1, Y1), (x2, Y2)]
        for x in targets:
            if x in (x1, x2):
                continue
            got = ShareSet.interpolate(x, pts)
            require(got == ref.interpolate(x, pts), "gf256/linear_interpolation",
                    f"xs=({x1},{x2}) x={x}")
            ctx.label("interpolations")


def interp_strategy(tier):
    def build(d, rnd):
        k = d["k"]
        xs = []
        while len(xs) < k:
            v = rnd.take(1)[0]
            if v not in xs:
                xs.append(v)
        if d["consecutive"]:
            xs = list(range(k))
        return {"xs": xs, "width": d["width"], "seed": rnd.take(8), "zero_top": d["zero_top"]}

    return derived({
        "k": st.sampled_from(list(range(1, 17))), "consecutive": st.sampled_from([False, False, True]),
        "width": st.sampled_from([1, 4, 16, 32]), "zero_top": st.booleans(),
    }, build)


def check_interp(case, ctx):
    xs, w = list(case["xs"]), case["width"]
    k = len(xs)
    ctx.label(f"k={k}")
    ctx.nontrivial(k >= 2)
    rnd = ref.DetRand(bytes(case["seed"]))
    coeffs = [rnd.take(w) for _ in range(k)]
    if case["zero_top"] and k > 1:
        coeffs[-1] = bytes(w)
        ctx.label("degree<k-1")
    pts = [(x, ref.poly_eval(coeffs, x)) for x in xs]
    if any(0 in y for _, y in pts):
        ctx.label("zero_share_byte")
    for x in range(256):
        if x in xs:
            continue
        got = must(ShareSet.interpolate, "interp/raises", x, pts)
        want = ref.poly_eval(coeffs, x)
        require(bytes(got) == want, "interp/value_differs_from_polynomial",
                f"k={k} xs={xs} x={x}: {bytes(got).hex()} != {want.hex()}")
    ctx.label("points", 256 - k)


SUBS = [
    Sub("threshold", check_threshold, strategy=threshold_strategy,
        budget={"quick": 2500, "thorough": 60000},
        required=["bits=128", "bits=256", "e=0", "e=1",
                  "e=2", "ge:exactly_k", "ge:more_than_k", "ge:all_n", "lt:empty", "lt:k-1",
                  "lt:other"],
        nontrivial_rule="k >= 2"),
    Sub("all_136_pairs", check_threshold, kind="exhaustive", enumerate=pairs136_enum,
        required=[f"kn={k}/{n}" for k, n in PAIRS] + ["bits=128", "bits=256"],
        nontrivial_rule="k >= 2; the same oracle as 'threshold' on every (k, n) x {128, 256} bits "
                        "every run (contents derived from the pair)"),
    Sub("all_subsets_small", check_all_subsets, kind="exhaustive", enumerate=subsets_enum,
        nontrivial_rule="one case = every subset of the shares of one (bits, k, n); k >= 2"),
    Sub("no_mixing", check_mixing, strategy=mixing_strategy,
        budget={"quick": 1500, "thorough": 40000},
        required=["kind:" + x for x in MIX_KINDS] + ["mode:" + x for x in MIX_MODES]
        + ["indices_disjoint", "total>=k"],
        nontrivial_rule="mixture with at least min(kA, kB) shares"),
    Sub("share_codec", check_codec, strategy=codec_strategy,
        budget={"quick": 3000, "thorough": 100000},
        required=["bits=128", "bits=256", "leading_zero_value"]),
    Sub("corruption", check_corruption, strategy=corruption_strategy,
        budget={"quick": 3000, "thorough": 100000},
        required=["errors=1", "errors=2", "errors=3", "single_all", "pos:header", "pos:value",
                  "pos:checksum", "words=20", "words=33"]),
    Sub("crypt_inverse", check_crypt, strategy=crypt_strategy,
        budget={"quick": 800, "thorough": 20000},
        required=["e=0", "e=1", "e=2", "bytes=16", "bytes=32", "passphrase>=hmac_block",
                  "passphrase_empty"]),
    Sub("gf256_tables_exhaustive", check_tables, kind="exhaustive", enumerate=tables_enum,
        nontrivial_rule="one case = one table entry against all 255 multiplicands"),
    Sub("gf256_pairs_exhaustive", check_pairs, kind="exhaustive", enumerate=pairs_enum,
        nontrivial_rule="one case = one share index against every other index (k = 1, 2)"),
    Sub("interpolation", check_interp, strategy=interp_strategy,
        budget={"quick": 500, "thorough": 15000},
        required=[f"k={k}" for k in range(1, 17)] + ["degree<k-1", "zero_share_byte"],
        nontrivial_rule="k >= 2; one case = all 256-k evaluation points"),
]
