"""C02 BIP340: signatures equal the spec; verification accepts exactly what the spec accepts."""
import hashlib

from hypothesis import strategies as st

import buidl.phash as phash
from buidl.pecc import PrivateKey, S256Point, SchnorrSignature

from vf import gen
from vf.core import Discard, Sub, attempt, require
from vf.ref import ec

N, P = ec.N, ec.P
RULE = (
    "sign_matches_spec: (secret, msg, aux) triples, all four (key parity, nonce parity) classes; "
    "verify_exact: a valid triple from the REFERENCE signer then one mutation kind (bit flips, "
    "range violations, non-curve R/pk, negated nonce, random); tag_cache_history: sequences of "
    "tagged_hash calls with repeated / prefix-related tags. Non-trivial: mutated triples, all "
    "sign cases, histories with a repeated tag."
)
ASSUMPTIONS = ["verification path under test: S256Point.parse_xonly, SchnorrSignature.parse, verify_schnorr"]


def selftest():
    ec.ensure_selftest()


def sign_strategy(tier):
    return st.fixed_dictionaries(
        {"secret": gen.secrets(), "msg": gen.b32(), "aux": st.one_of(st.none(), gen.b32())}
    )


def buidl_verify(pk, msg, sig):
    def run():
        point = S256Point.parse_xonly(pk)
        s = SchnorrSignature.parse(sig)
        return point.verify_schnorr(msg, s)

    return attempt(run)


def check_sign(case, ctx):
    d, msg, aux = case["secret"], case["msg"], case["aux"]
    ctx.nontrivial()
    aux_eff = bytes(32) if aux is None else aux
    want = ec.schnorr_sign(d, msg, aux_eff)
    Pt = ec.mul(d)
    # nonce parity class (before normalisation)
    dd = d if Pt[1] % 2 == 0 else N - d
    t = (dd ^ int.from_bytes(ec.tagged_hash("BIP0340/aux", aux_eff), "big")).to_bytes(32, "big")
    k0 = int.from_bytes(ec.tagged_hash("BIP0340/nonce", t + ec.xonly(Pt) + msg), "big") % N
    ctx.label(f"keyodd={Pt[1] & 1},nonceodd={ec.mul(k0)[1] & 1}")
    if aux is None:
        ctx.label("aux_default")
    priv = PrivateKey(d)
    sig = priv.sign_schnorr(msg, aux)
    got = sig.serialize()
    require(len(got) == 64, "sign/length")
    require(got == want, "sign/differs_from_bip340",
            f"d={d:x} msg={msg.hex()} aux={aux_eff.hex()} got={got.hex()} want={want.hex()}")
    pk = priv.point.xonly()
    require(pk == ec.xonly(Pt), "sign/xonly_pubkey")
    require(ec.schnorr_verify(pk, msg, got), "sign/ref_rejects")
    st_, ok = buidl_verify(pk, msg, got)
    require(st_ == "ok" and ok is True, "sign/own_sig_rejected", f"{st_} {ok!r}")


def history_strategy(tier):
    """one PrivateKey / S256Point object used for a whole sequence of sign and verify calls"""
    op = st.tuples(st.sampled_from(["sign", "sign", "verify_own", "verify_other"]), st.integers(0, 2),
                   st.integers(0, 3))
    return st.fixed_dictionaries({
        "secret": gen.secrets(),
        "msgs": st.tuples(gen.rand_bytes(32), gen.rand_bytes(32), gen.b32()),
        "auxs": st.tuples(st.none(), st.just(bytes(32)), gen.rand_bytes(32), gen.rand_bytes(32)),
        "ops": st.lists(op, min_size=2, max_size=6),
    })


def check_history(case, ctx):
    d = case["secret"]
    priv = PrivateKey(d)
    pk = ec.xonly(ec.mul(d))
    point = S256Point.parse_xonly(pk)
    seen = {}
    repeated = False
    for kind, mi, ai in case["ops"]:
        msg, aux = case["msgs"][mi], case["auxs"][ai]
        aux_eff = bytes(32) if aux is None else aux
        want = ec.schnorr_sign(d, msg, aux_eff)
        if kind == "sign":
            if mi in seen and seen[mi] != aux_eff:
                repeated = True
            seen.setdefault(mi, aux_eff)
            got = priv.sign_schnorr(msg, aux).serialize()
            require(got == want, "history/signature_depends_on_earlier_calls",
                    f"d={d:x} ops={case['ops']!r} msg#{mi} aux#{ai}: got={got.hex()} want={want.hex()}")
        elif kind == "verify_own":
            ok = point.verify_schnorr(msg, SchnorrSignature.parse(want))
            require(ok is True, "history/valid_signature_rejected_after_earlier_calls")
        else:
            other = ec.schnorr_sign(d, case["msgs"][(mi + 1) % 3], aux_eff)
            if case["msgs"][(mi + 1) % 3] == msg:
                continue
            st_, ok = attempt(lambda: point.verify_schnorr(msg, SchnorrSignature.parse(other)))
            require(not (st_ == "ok" and ok), "history/invalid_signature_accepted_after_earlier_calls")
    ctx.nontrivial(repeated)
    ctx.label("same_msg_different_aux" if repeated else "no_repeat")


MUTS = [
    "none", "flip_sig_bit", "flip_msg_bit", "other_key", "R=0", "R>=p", "R_nonresidue",
    "s=0", "s=n", "s=n+small", "s=2^256-1", "pk_not_on_curve", "pk>=p", "pk=0",
    "random_sig", "negated_nonce", "neg_s", "R_other_point", "swap_R_s", "pk=0_forged",
    # the signature is handed over as an OBJECT built with the public constructor SchnorrSignature(R, s):
    # the verdict has to be the BIP340 verdict on the 64 bytes that object stands for
    "obj_valid", "obj_odd_R_unnormalised_nonce", "obj_negated_R",
]


def verify_strategy(tier):
    return st.fixed_dictionaries(
        {
            "d": gen.secrets(), "msg": gen.b32(), "aux": gen.b32(),
            "mut": gen.choice(MUTS),
            "bit": st.integers(0, 511), "j": st.integers(0, 2**32 + 976),
            "rnd": st.binary(min_size=64, max_size=64),
            "k2": gen.uniform_int(1, N - 1),
        }
    )


def _nonresidue_x(start):
    x = start % P
    while ec.lift_x(x) is not None:
        x = (x + 1) % P
    return x


def build(case):
    d, msg, mut = case["d"], case["msg"], case["mut"]
    pk = ec.xonly(ec.mul(d))
    sig = ec.schnorr_sign(d, msg, case["aux"])
    r, s = sig[:32], int.from_bytes(sig[32:], "big")
    b32 = lambda v: v.to_bytes(32, "big")  # noqa
    if mut == "none":
        pass
    elif mut == "flip_sig_bit":
        i = case["bit"]
        sig = bytearray(sig)
        sig[i // 8] ^= 1 << (i % 8)
        sig = bytes(sig)
    elif mut == "flip_msg_bit":
        i = case["bit"] % 256
        m = bytearray(msg)
        m[i // 8] ^= 1 << (i % 8)
        msg = bytes(m)
    elif mut == "other_key":
        pk = ec.xonly(ec.mul(case["k2"]))
    elif mut == "R=0":
        sig = bytes(32) + sig[32:]
    elif mut == "R>=p":
        sig = b32(P + case["j"]) + sig[32:]
    elif mut == "R_nonresidue":
        sig = b32(_nonresidue_x(case["k2"])) + sig[32:]
    elif mut == "s=0":
        sig = r + bytes(32)
    elif mut == "s=n":
        sig = r + b32(N)
    elif mut == "s=n+small":
        sig = r + b32(N + 1 + case["j"] % 1000)
    elif mut == "s=2^256-1":
        sig = r + b"\xff" * 32
    elif mut == "pk_not_on_curve":
        pk = b32(_nonresidue_x(case["k2"]))
    elif mut == "pk>=p":
        pk = b32(P + case["j"])
    elif mut == "pk=0":
        pk = bytes(32)
    elif mut == "pk=0_forged":
        # x = 0 is not on the curve.  An implementation that reads the zero key as the point at infinity
        # computes R = s*G - e*infinity = s*G for every message, so anybody can "sign": sig = x(s*G) || s
        pk = bytes(32)
        s2 = case["k2"]
        if ec.mul(s2)[1] % 2:
            s2 = N - s2
        sig = ec.xonly(ec.mul(s2)) + b32(s2)
    elif mut == "random_sig":
        sig = case["rnd"]
    elif mut == "negated_nonce":
        e = int.from_bytes(ec.tagged_hash("BIP0340/challenge", r + pk + msg), "big") % N
        dd = d if ec.mul(d)[1] % 2 == 0 else N - d
        s2 = (2 * e * dd - s) % N  # = -k + e*d  ->  s2*G - e*P = -R (odd y, same x)
        sig = r + b32(s2)
    elif mut == "neg_s":
        sig = r + b32((N - s) % N)
    elif mut == "R_other_point":
        sig = ec.xonly(ec.mul(case["k2"])) + sig[32:]
    elif mut == "swap_R_s":
        sig = sig[32:] + sig[:32]
    else:
        raise AssertionError(mut)
    return pk, msg, sig


def check_verify_object(case, ctx):
    d, msg, mut = case["d"], case["msg"], case["mut"]
    ctx.label("mut:" + mut)
    ctx.nontrivial()
    Pt = ec.mul(d)
    pk = ec.xonly(Pt)
    dd = d if Pt[1] % 2 == 0 else N - d
    k = case["k2"]
    R = ec.mul(k)
    if mut == "obj_odd_R_unnormalised_nonce":
        if R[1] % 2 == 0:
            k, R = N - k, ec.neg(R)  # the nonce point has ODD y and is used as it is
    elif R[1] % 2:
        k, R = N - k, ec.neg(R)      # BIP340: even y
    e = int.from_bytes(ec.tagged_hash("BIP0340/challenge", ec.xonly(R) + pk + msg), "big") % N
    s = (k + e * dd) % N
    if mut == "obj_negated_R":
        R = ec.neg(R)                # same x, same 64 bytes as the valid signature
    sig64 = ec.xonly(R) + s.to_bytes(32, "big")
    want = ec.schnorr_verify(pk, msg, sig64)
    assert want == (mut != "obj_odd_R_unnormalised_nonce")
    ctx.label("ref_valid" if want else "ref_invalid")
    obj = SchnorrSignature(S256Point(R[0], R[1]), s)
    st_, got = attempt(S256Point.parse_xonly(pk).verify_schnorr, msg, obj)
    if want:
        require(st_ == "ok" and got is True, f"verify/rejects_valid:{mut}", f"{st_}:{got!r} sig={sig64.hex()}")
    else:
        require(not (st_ == "ok" and got), f"verify/accepts_invalid:{mut}",
                f"pk={pk.hex()} msg={msg.hex()} sig={sig64.hex()} (R has odd y)")
    ser = attempt(obj.serialize)
    require(ser == ("ok", sig64), "verify/object_serialisation", f"{ser!r}")


def check_verify(case, ctx):
    if case["mut"].startswith("obj_"):
        return check_verify_object(case, ctx)
    t = build(case)
    if t is None:
        raise Discard("s+n>=2^256")
    pk, msg, sig = t
    mut = case["mut"]
    ctx.label("mut:" + mut)
    ctx.nontrivial(mut != "none")
    want = ec.schnorr_verify(pk, msg, sig)
    if mut == "none":
        assert want
    ctx.label("ref_valid" if want else "ref_invalid")
    st_, got = buidl_verify(pk, msg, sig)
    if want:
        require(st_ == "ok" and got is True, f"verify/rejects_valid:{mut}",
                f"{st_}:{got!r} pk={pk.hex()} msg={msg.hex()} sig={sig.hex()}")
    else:
        require(not (st_ == "ok" and got), f"verify/accepts_invalid:{mut}",
                f"pk={pk.hex()} msg={msg.hex()} sig={sig.hex()}")


# ----------------------------------------------------------- tag cache history

FIXED = [
    ("hash_aux", b"BIP0340/aux"), ("hash_challenge", b"BIP0340/challenge"),
    ("hash_keyaggcoef", b"KeyAgg coefficient"), ("hash_keyagglist", b"KeyAgg list"),
    ("hash_musignonce", b"MuSig/noncecoef"), ("hash_nonce", b"BIP0340/nonce"),
    ("hash_tapbranch", b"TapBranch"), ("hash_tapleaf", b"TapLeaf"),
    ("hash_tapsighash", b"TapSighash"), ("hash_taptweak", b"TapTweak"),
]
TAG_POOL = [b"", b"T", b"Ta", b"Tap", b"TapLeaf", b"TapLeaf\x00", b"TapBranch", b"BIP0340/aux",
            b"BIP0340/au", b"\x00", b"\x00\x00", b"x" * 64, b"x" * 65]


def cache_strategy(tier):
    op = st.one_of(
        st.tuples(st.just("named"), st.integers(0, len(FIXED) - 1), st.binary(max_size=80)),
        st.tuples(st.just("tag"), st.sampled_from(TAG_POOL), st.binary(max_size=80)),
        st.tuples(st.just("tag"), st.binary(max_size=12), st.binary(max_size=80)),
        st.tuples(st.just("clear"), st.just(0), st.just(b"")),
    )
    return st.fixed_dictionaries({"ops": st.lists(op, min_size=1, max_size=30)})


def check_cache(case, ctx):
    phash.TAG_HASH_CACHE.clear()
    seen = set()
    repeated = False
    for kind, a, msg in case["ops"]:
        if kind == "clear":
            phash.TAG_HASH_CACHE.clear()
            seen.clear()
            continue
        if kind == "named":
            name, tag = FIXED[a]
            got = getattr(phash, name)(msg)
        else:
            tag = a
            got = phash.tagged_hash(tag, msg)
        if tag in seen:
            repeated = True
        seen.add(tag)
        th = hashlib.sha256(tag).digest()
        want = hashlib.sha256(th + th + msg).digest()
        require(got == want, "cache/wrong_tagged_hash", f"tag={tag!r} msg={msg.hex()}")
        for t, v in phash.TAG_HASH_CACHE.items():
            require(v == hashlib.sha256(t).digest() * 2, "cache/poisoned_entry", repr(t))
    ctx.nontrivial(repeated)
    ctx.label("repeated_tag" if repeated else "no_repeat")


SUBS = [
    Sub("sign_matches_spec", check_sign, strategy=sign_strategy,
        budget={"quick": 800, "thorough": 25000},
        required=[f"keyodd={a},nonceodd={b}" for a in (0, 1) for b in (0, 1)] + ["aux_default"]),
    Sub("verify_exact", check_verify, strategy=verify_strategy,
        budget={"quick": 3000, "thorough": 80000},
        required=["mut:" + m for m in MUTS], nontrivial_rule="mutated triple"),
    Sub("sign_verify_history", check_history, strategy=history_strategy, stateful=True,
        budget={"quick": 240, "thorough": 8000}, required=["same_msg_different_aux"],
        nontrivial_rule="history in which one key object signs the same message with different aux values"),
    Sub("tag_cache_history", check_cache, strategy=cache_strategy, stateful=True,
        budget={"quick": 4000, "thorough": 100000}, required=["repeated_tag"],
        nontrivial_rule="history in which a tag is used at least twice"),
]
