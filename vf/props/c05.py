"""C05 signature hashes: legacy / BIP143 / BIP341 digests for every hash type; history independence."""
from hypothesis import strategies as st

from buidl.script import RedeemScript, Script, WitnessScript
from buidl.timelock import Locktime, Sequence
from buidl.tx import Tx, TxIn, TxOut
from buidl.witness import Witness

from vf import gen, txgen
from vf.core import Discard, Sub, attempt, require, time_limit
from vf.ref import ec, sighash, txser

RULE = (
    "digest_differential: generated transactions (1..6 inputs, 0..6 outputs), spent outputs, input "
    "index, hash type and one of 17 (algorithm, entry point) combinations; buidl's digest must equal "
    "the reference (legacy incl. the SINGLE 'one' rule, BIP143 incl. zeroed midstates, BIP341/342 incl. "
    "annex and script path). history_independence: op lists interleaving digest queries with edits on "
    "ONE Tx object, mirrored on a model dict. Non-trivial: hash type != ALL or more than one input; "
    "histories with query -> edit -> query."
)
ASSUMPTIONS = [
    "spent outputs are attached through TxIn._value / TxIn._script_pubkey (what TxFetcher would fill in)",
    "history_independence uses generated op lists interpreted on the object and on a model "
    "(equivalent to a rule-based state machine; the op list is the replayable case record)",
]

HT_LEGACY = [1, 2, 3, 0x81, 0x82, 0x83]
HT_TAP = [0, 1, 2, 3, 0x81, 0x82, 0x83]


def selftest():
    sighash.ensure_selftest()
    ec.ensure_selftest()


def toks(script):
    return [t if isinstance(t, int) else bytes(t) for t in script]


def h160s():
    return st.one_of(gen.rand_bytes(20), st.binary(min_size=20, max_size=20))


def h256s():
    return st.one_of(gen.rand_bytes(32), st.binary(min_size=32, max_size=32))


def xonly_keys():
    return st.integers(1, 2**32).map(lambda k: ec.xonly(ec.mul(k)))


@st.composite
def spks(draw):
    kind = draw(st.sampled_from(["p2pkh", "p2sh", "p2wpkh", "p2wsh", "p2tr", "other"]))
    if kind == "p2pkh":
        return [0x76, 0xA9, draw(h160s()), 0x88, 0xAC]
    if kind == "p2sh":
        return [0xA9, draw(h160s()), 0x87]
    if kind == "p2wpkh":
        return [0, draw(h160s())]
    if kind == "p2wsh":
        return [0, draw(h256s())]
    if kind == "p2tr":
        return [0x51, draw(h256s())]
    return draw(txgen.script(4))


def spent_out():
    return st.fixed_dictionaries({"amount": txgen.amounts((1 << 63) - 1), "spk": spks()})


def small_in():
    return st.fixed_dictionaries(
        {"prev_tx": st.binary(min_size=32, max_size=32), "prev_index": txgen.u32(),
         "script": st.just([]), "sequence": txgen.u32(), "witness": st.just([])}
    )


def small_out():
    return st.fixed_dictionaries({"amount": txgen.amounts((1 << 63) - 1), "script": txgen.script(3)})


def script_code():
    return st.one_of(
        st.tuples(st.integers(1, 3), st.lists(st.binary(min_size=33, max_size=33), min_size=1, max_size=3))
        .map(lambda t: [0x50 + min(t[0], len(t[1]))] + t[1] + [0x50 + len(t[1]), 0xAE]),
        txgen.script(5).filter(lambda s: len(s) > 0),
    )


ALGOS = [
    "legacy_spk_direct", "legacy_redeem_direct", "bip143_p2wpkh_direct", "bip143_p2sh_p2wpkh_direct",
    "bip143_wscript_direct", "bip341_key_direct", "bip341_script_direct",
    "disp_p2pkh", "disp_p2sh", "disp_p2wpkh", "disp_p2sh_p2wpkh", "disp_p2wsh", "disp_p2sh_p2wsh",
    "disp_p2tr_key", "disp_p2tr_key_annex", "disp_p2tr_script", "disp_p2tr_script_annex",
    "disp_p2tr_script_no_args",
]


@st.composite
def diff_cases(draw):
    n_in = draw(st.integers(1, 6))
    ins = draw(st.lists(small_in(), min_size=n_in, max_size=n_in))
    outs = draw(st.lists(small_out(), min_size=0, max_size=6))
    spent = draw(st.lists(spent_out(), min_size=n_in, max_size=n_in))
    algo = draw(st.sampled_from(ALGOS))
    taproot = "341" in algo or "p2tr" in algo
    return {
        "tx": {"version": draw(txgen.u32()), "segwit": False, "locktime": draw(txgen.u32()),
               "ins": ins, "outs": outs},
        "spent": spent,
        "idx": draw(st.integers(0, n_in - 1)),
        "ht": draw(st.sampled_from(HT_TAP if taproot else HT_LEGACY)),
        "algo": algo,
        "h160": draw(h160s()),
        "code": draw(script_code()),
        "annex": draw(st.one_of(st.none(), st.binary(max_size=40).map(lambda b: b"\x50" + b))),
        "ikey": draw(xonly_keys()),
        "leaf_version": draw(st.sampled_from([0xC0, 0xC2, 0x66, 0xFE])),
        "cb_parity": draw(st.integers(0, 1)),
        "path": draw(st.lists(h256s(), max_size=3)),
        "sig": draw(st.one_of(gen.rand_bytes(64), st.binary(min_size=64, max_size=64))),
    }


def build_tx(txd, spent):
    ins = []
    for i, sp in zip(txd["ins"], spent):
        ti = TxIn(i["prev_tx"], i["prev_index"], Script(toks(i["script"])), i["sequence"])
        ti.witness = Witness([bytes(x) for x in i["witness"]])
        ti._value = sp["amount"]
        ti._script_pubkey = Script(toks(sp["spk"]))
        ins.append(ti)
    outs = [TxOut(o["amount"], Script(toks(o["script"]))) for o in txd["outs"]]
    return Tx(txd["version"], ins, outs, txd["locktime"], segwit=True)


def as_bytes(v):
    if isinstance(v, int):
        return v.to_bytes(32, "big")
    return bytes(v)


def check_diff(case, ctx):
    txd = case["tx"]
    for part in (txd["ins"], txd["outs"]):
        for e in part:
            e["script"] = toks(e["script"])
    spent = [{"amount": s["amount"], "spk": toks(s["spk"])} for s in case["spent"]]
    idx, ht, algo = case["idx"], case["ht"], case["algo"]
    h160, code = case["h160"], toks(case["code"])
    code_b = txser.script_bytes(code)
    p2pkh_code = txser.script_bytes([0x76, 0xA9, h160, 0x88, 0xAC])
    annex = case["annex"]
    ctx.label(f"{algo}|ht={ht:#x}")
    ctx.label("algo:" + algo)
    single_oor = (ht & 3) == 3 and idx >= len(txd["outs"])
    if single_oor:
        ctx.label("single_out_of_range")
        ctx.label("single_out_of_range:" + algo.split("_")[0].replace("disp", "dispatch"))
    ctx.nontrivial(ht != 1 or len(txd["ins"]) > 1)
    import hashlib

    ins = txd["ins"]
    want = None
    # --- arrange the spent output / scriptSig / witness of input idx for the chosen algorithm
    wit = []
    ssig = []
    if algo in ("legacy_spk_direct", "disp_p2pkh"):
        spent[idx]["spk"] = [0x76, 0xA9, h160, 0x88, 0xAC]
        want = ("legacy", p2pkh_code)
    elif algo in ("legacy_redeem_direct", "disp_p2sh"):
        spent[idx]["spk"] = [0xA9, ec_hash160(code_b), 0x87]
        ssig = [b"\x01" * 71, code_b]
        want = ("legacy", code_b)
    elif algo in ("bip143_p2wpkh_direct", "disp_p2wpkh"):
        spent[idx]["spk"] = [0, h160]
        wit = [b"\x30" * 71, b"\x02" * 33]
        want = ("bip143", p2pkh_code)
    elif algo in ("bip143_p2sh_p2wpkh_direct", "disp_p2sh_p2wpkh"):
        redeem = txser.script_bytes([0, h160])
        spent[idx]["spk"] = [0xA9, ec_hash160(redeem), 0x87]
        ssig = [redeem]
        wit = [b"\x30" * 71, b"\x02" * 33]
        want = ("bip143", p2pkh_code)
    elif algo in ("bip143_wscript_direct", "disp_p2wsh"):
        spent[idx]["spk"] = [0, hashlib.sha256(code_b).digest()]
        wit = [b"", b"\x30" * 71, code_b]
        want = ("bip143", code_b)
    elif algo == "disp_p2sh_p2wsh":
        redeem = txser.script_bytes([0, hashlib.sha256(code_b).digest()])
        spent[idx]["spk"] = [0xA9, ec_hash160(redeem), 0x87]
        ssig = [redeem]
        wit = [b"", b"\x30" * 71, code_b]
        want = ("bip143", code_b)
    elif algo in ("bip341_key_direct", "disp_p2tr_key", "disp_p2tr_key_annex"):
        spent[idx]["spk"] = [0x51, case["ikey"]]
        if algo == "disp_p2tr_key":
            annex = None
        if algo == "disp_p2tr_key_annex" and annex is None:
            annex = b"\x50"
        wit = [case["sig"]] + ([annex] if annex is not None else [])
        want = ("bip341", None)
    elif algo in ("bip341_script_direct", "disp_p2tr_script", "disp_p2tr_script_annex"):
        spent[idx]["spk"] = [0x51, case["ikey"]]
        if algo == "disp_p2tr_script":
            annex = None
        if algo == "disp_p2tr_script_annex" and annex is None:
            annex = b"\x50\x00"
        cb = bytes([case["leaf_version"] | case["cb_parity"]]) + case["ikey"] + b"".join(case["path"])
        wit = [case["sig"], code_b, cb] + ([annex] if annex is not None else [])
        want = ("bip341", sighash.tapleaf_hash(code_b, case["leaf_version"]))
    elif algo == "disp_p2tr_script_no_args":
        # two witness items (plus, possibly, the annex) are already a script path spend: the state in which
        # a signer asks for the digest BEFORE the first signature is put on the stack
        spent[idx]["spk"] = [0x51, case["ikey"]]
        cb = bytes([case["leaf_version"] | case["cb_parity"]]) + case["ikey"] + b"".join(case["path"])
        wit = [code_b, cb] + ([annex] if annex is not None else [])
        want = ("bip341", sighash.tapleaf_hash(code_b, case["leaf_version"]))
    else:
        raise AssertionError(algo)
    if annex is not None and want[0] == "bip341":
        ctx.label("annex")
    ins[idx]["script"] = ssig
    ins[idx]["witness"] = wit
    # --- reference digest
    ref_spent = [{"amount": s["amount"], "spk": txser.script_bytes(s["spk"])} for s in spent]
    invalid = False
    if want[0] == "legacy":
        ref = sighash.legacy(txd, idx, want[1], ht)
    elif want[0] == "bip143":
        ref = sighash.bip143(txd, idx, want[1], spent[idx]["amount"], ht)
    else:
        try:
            ref = sighash.bip341(txd, idx, ref_spent, ht, annex=annex, leaf_hash=want[1])
        except sighash.Invalid:
            invalid = True
            ref = None
    # --- buidl
    t = build_tx(txd, spent)
    if algo == "legacy_spk_direct":
        call = lambda: t.sig_hash_legacy(idx, None, ht)  # noqa
    elif algo == "legacy_redeem_direct":
        call = lambda: t.sig_hash_legacy(idx, RedeemScript(code), ht)  # noqa
    elif algo == "bip143_p2wpkh_direct":
        call = lambda: t.sig_hash_bip143(idx, hash_type=ht)  # noqa
    elif algo == "bip143_p2sh_p2wpkh_direct":
        call = lambda: t.sig_hash_bip143(idx, redeem_script=RedeemScript([0, h160]), hash_type=ht)  # noqa
    elif algo == "bip143_wscript_direct":
        call = lambda: t.sig_hash_bip143(idx, witness_script=WitnessScript(code), hash_type=ht)  # noqa
    elif algo == "bip341_key_direct":
        call = lambda: t.sig_hash_bip341(idx, 0, ht)  # noqa
    elif algo == "bip341_script_direct":
        call = lambda: t.sig_hash_bip341(idx, 1, ht)  # noqa
    else:
        call = lambda: t.sig_hash(idx, ht)  # noqa
    st_, got = attempt(call)
    fam = want[0]
    if invalid:
        require(st_ == "exc", f"digest/{fam}:returns_digest_for_undefined_single", f"algo={algo} ht={ht:#x}")
        return
    if st_ == "exc":
        require(False, f"digest/{fam}:raises_{type(got).__name__}:{'single_oor' if single_oor else algo}",
                f"algo={algo} ht={ht:#x} idx={idx} nout={len(txd['outs'])}: {got}")
    acp = "acp" if ht & 0x80 else "noacp"
    base = {0: "default", 1: "all", 2: "none", 3: "single"}[ht & 3]
    tag = f"{fam}:{base}:{acp}" + (":annex" if (annex is not None and fam == "bip341") else "")
    if algo.startswith("disp"):
        tag += ":via_sig_hash"
    require(as_bytes(got) == ref, f"digest/{tag}",
            f"algo={algo} ht={ht:#x} idx={idx} nin={len(ins)} nout={len(txd['outs'])} "
            f"got={as_bytes(got).hex()} want={ref.hex()}")


def ec_hash160(b):
    import hashlib

    return hashlib.new("ripemd160", hashlib.sha256(b).digest()).digest()


# --------------------------------------------------------------------- history

EDITS = ["out_amount", "out_script", "out_append", "out_remove", "in_sequence", "in_outpoint",
         "in_append", "in_remove", "locktime", "version", "annex_set", "annex_clear",
         "leaf_set", "leaf_inplace", "annex_append_inplace", "annex_pop_inplace", "sig_insert_inplace",
         "p2tr_annex_spend", "p2tr_annex_spend", "out_script_inplace"]


def op_strategy():
    q = st.tuples(st.just("q"), st.sampled_from(["legacy", "bip143", "bip341", "bip341_script", "bip341_script"]),
                  st.integers(0, 5), st.sampled_from(HT_TAP))
    e = st.tuples(st.just("e"), st.sampled_from(EDITS), st.integers(0, 5),
                  st.integers(0, 0xFFFFFFFF))
    # "v": the input is verified (whatever the verdict); verification is a read-only use of the object
    v = st.tuples(st.just("v"), st.just(""), st.integers(0, 5), st.just(0))
    return st.one_of(q, q, e, v)


@st.composite
def hist_cases(draw):
    n_in = draw(st.integers(1, 4))
    tier_len = 12
    return {
        "tx": {"version": draw(txgen.u32()), "segwit": False, "locktime": draw(txgen.u32()),
               "ins": draw(st.lists(small_in(), min_size=n_in, max_size=n_in)),
               "outs": draw(st.lists(small_out(), min_size=0, max_size=4))},
        "spent": draw(st.lists(spent_out(), min_size=n_in, max_size=n_in)),
        "extra_ins": draw(st.lists(st.tuples(small_in(), spent_out()), min_size=3, max_size=3)),
        "extra_outs": draw(st.lists(small_out(), min_size=3, max_size=3)),
        "code": draw(script_code()),
        "leaves": draw(st.lists(st.tuples(script_code(), st.sampled_from([0xC0, 0xC2, 0x66]), st.integers(0, 1),
                                          st.lists(h256s(), max_size=2)), min_size=2, max_size=2)),
        "ikey": draw(xonly_keys()),
        "ops": draw(st.lists(op_strategy(), min_size=2, max_size=tier_len)),
        # a fixed opening that random op lists rarely produce: script-path witness, query, the leaf replaced
        # IN PLACE, the same query again (then the generated ops follow)
        "opening": draw(st.sampled_from([None, None, None, "script_path_requery", "annex_verify_requery"])),
        "opening_args": draw(st.tuples(st.integers(0, 5), st.integers(0, 0xFFFFFFFF), st.sampled_from(HT_TAP))),
    }


def check_hist(case, ctx):
    txd = case["tx"]
    for part in (txd["ins"], txd["outs"]):
        for e in part:
            e["script"] = toks(e["script"])
    spent = [{"amount": s["amount"], "spk": toks(s["spk"])} for s in case["spent"]]
    code = toks(case["code"])
    code_b = txser.script_bytes(code)
    extra_ins = [(dict(i, script=[]), {"amount": s["amount"], "spk": toks(s["spk"])})
                 for i, s in case["extra_ins"]]
    extra_outs = [dict(o, script=toks(o["script"])) for o in case["extra_outs"]]
    t = build_tx(txd, spent)
    leaves = []
    for code_l, ver, par, path in case.get("leaves", []):
        sb = txser.script_bytes(toks(code_l))
        leaves.append((sb, bytes([ver | par]) + case["ikey"] + b"".join(bytes(h) for h in path)))

    def split_witness(w):
        """(items without annex, annex or None)"""
        if len(w) >= 2 and w[-1][:1] == b"\x50":
            return w[:-1], w[-1]
        return w, None

    queried = set()
    edited_after_query = False
    requery = False
    n_q = 0
    ops = [tuple(o) for o in case["ops"]]
    if case.get("opening"):
        oi, ov, oht = case["opening_args"]
        ctx.label("opening:" + case["opening"])
        if case["opening"] == "script_path_requery":
            ops = [("e", "leaf_set", oi, ov), ("q", "bip341_script", oi, oht), ("e", "leaf_inplace", oi, ov + 1),
                   ("q", "bip341_script", oi, oht)] + ops
        else:
            ops = [("e", "p2tr_annex_spend", oi, ov), ("q", "bip341", oi, oht), ("v", "", oi, 0),
                   ("q", "bip341", oi, oht)] + ops
    for op in ops:
        if op[0] == "q":
            _, fam, i, ht = op
            idx = i % len(txd["ins"])
            if fam != "bip341":
                if ht == 0:
                    ht = 1
            body, annex = split_witness(txd["ins"][idx]["witness"])
            if fam == "bip341_script" and (len(body) < 2 or len(body[-1]) % 32 != 1 or len(body[-1]) < 33):
                continue  # no well-formed script-path witness on this input at the moment
            ref_spent = [{"amount": s["amount"], "spk": txser.script_bytes(s["spk"])} for s in spent]
            try:
                if fam == "legacy":
                    ref = sighash.legacy(txd, idx, code_b, ht)
                    call = lambda: t.sig_hash_legacy(idx, RedeemScript(code), ht)  # noqa
                elif fam == "bip143":
                    ref = sighash.bip143(txd, idx, code_b, spent[idx]["amount"], ht)
                    call = lambda: t.sig_hash_bip143(idx, witness_script=WitnessScript(code), hash_type=ht)  # noqa
                elif fam == "bip341_script":
                    lh = sighash.tapleaf_hash(body[-2], body[-1][0] & 0xFE)
                    ref = sighash.bip341(txd, idx, ref_spent, ht, annex=annex, leaf_hash=lh)
                    call = lambda: t.sig_hash_bip341(idx, 1, ht)  # noqa
                    ctx.label("script_path_query")
                else:
                    ref = sighash.bip341(txd, idx, ref_spent, ht, annex=annex)
                    call = lambda: t.sig_hash_bip341(idx, 0, ht)  # noqa
            except sighash.Invalid:
                st_, got = attempt(lambda: t.sig_hash_bip341(idx, 1 if fam == "bip341_script" else 0, ht))
                require(st_ == "exc", "history/undefined_single_returns_digest")
                continue
            st_, got = attempt(call)
            n_q += 1
            if fam in queried and edited_after_query:
                requery = True
            queried.add(fam)
            if st_ == "exc":
                require(False, f"history/{fam}:raises_{type(got).__name__}", str(got)[:200])
            require(as_bytes(got) == ref,
                    f"history/{fam}:stale_or_wrong_digest" + ("_after_edit" if edited_after_query else ""),
                    f"ops={case['ops']!r}"[:400])
        elif op[0] == "v":
            j = op[2] % len(txd["ins"])
            _, annex = split_witness(txd["ins"][j]["witness"])
            with time_limit(60):
                st_, ok = attempt(t.verify_input, j)
            ctx.label("verify_between_queries")
            if annex is not None and spent[j]["spk"][:1] == [0x51]:
                ctx.label("verify_p2tr_input_with_annex")
            if queried:
                edited_after_query = True  # a later query of the same family is a re-query after a use
        else:
            _, kind, i, v = op
            if queried:
                edited_after_query = True
            ctx.label("edit:" + kind)
            if kind == "out_amount" and txd["outs"]:
                j = i % len(txd["outs"])
                txd["outs"][j]["amount"] = v
                t.tx_outs[j].amount = v
            elif kind == "out_script" and txd["outs"]:
                j = i % len(txd["outs"])
                txd["outs"][j]["script"] = [v & 0xFF | 0x50, v.to_bytes(4, "big")]
                t.tx_outs[j].script_pubkey = Script([v & 0xFF | 0x50, v.to_bytes(4, "big")])
            elif kind == "out_script_inplace" and txd["outs"]:
                # the command list of the existing scriptPubKey object is extended in place
                j = i % len(txd["outs"])
                txd["outs"][j]["script"] = list(txd["outs"][j]["script"]) + [v & 0x0F | 0x50]
                t.tx_outs[j].script_pubkey.commands.append(v & 0x0F | 0x50)
            elif kind == "out_append" and len(txd["outs"]) < 7:
                o = extra_outs[i % 3]
                txd["outs"].append(dict(o))
                t.tx_outs.append(TxOut(o["amount"], Script(list(o["script"]))))
            elif kind == "out_remove" and txd["outs"]:
                j = i % len(txd["outs"])
                del txd["outs"][j]
                del t.tx_outs[j]
            elif kind == "in_sequence":
                j = i % len(txd["ins"])
                txd["ins"][j]["sequence"] = v
                t.tx_ins[j].sequence = Sequence(v)
            elif kind == "in_outpoint":
                j = i % len(txd["ins"])
                txd["ins"][j]["prev_index"] = v
                t.tx_ins[j].prev_index = v
            elif kind == "in_append" and len(txd["ins"]) < 7:
                ni, ns = extra_ins[i % 3]
                txd["ins"].append(dict(ni, witness=[]))
                spent.append(dict(ns))
                ti = TxIn(ni["prev_tx"], ni["prev_index"], Script(), ni["sequence"])
                ti._value = ns["amount"]
                ti._script_pubkey = Script(list(ns["spk"]))
                t.tx_ins.append(ti)
            elif kind == "in_remove" and len(txd["ins"]) > 1:
                j = i % len(txd["ins"])
                del txd["ins"][j]
                del spent[j]
                del t.tx_ins[j]
            elif kind == "locktime":
                txd["locktime"] = v
                t.locktime = Locktime(v)
            elif kind == "version":
                txd["version"] = v
                t.version = v
            elif kind == "annex_set":
                j = i % len(txd["ins"])
                w = [b"\x07" * 64, b"\x50" + v.to_bytes(4, "big")]
                txd["ins"][j]["witness"] = w
                t.tx_ins[j].witness = Witness(list(w))
            elif kind == "annex_clear":
                j = i % len(txd["ins"])
                txd["ins"][j]["witness"] = []
                t.tx_ins[j].witness = Witness()
            elif kind == "leaf_set" and leaves:
                j = i % len(txd["ins"])
                sb, cb = leaves[v % 2]
                w = [b"\x09" * 64, sb, cb]
                txd["ins"][j]["witness"] = list(w)
                t.tx_ins[j].witness = Witness(list(w))
            elif kind == "leaf_inplace" and leaves:
                # the tap script / control block of an existing script-path witness are replaced IN PLACE
                j = i % len(txd["ins"])
                body, annex = split_witness(txd["ins"][j]["witness"])
                if len(body) >= 2:
                    sb, cb = leaves[v % 2]
                    k = 1 if annex is not None else 0
                    items = t.tx_ins[j].witness.items
                    items[-2 - k] = sb
                    items[-1 - k] = cb
                    mw = txd["ins"][j]["witness"]
                    mw[-2 - k] = sb
                    mw[-1 - k] = cb
                    ctx.label("inplace_leaf_replaced")
            elif kind == "annex_append_inplace":
                j = i % len(txd["ins"])
                body, annex = split_witness(txd["ins"][j]["witness"])
                if annex is None and len(body) >= 1:
                    a = b"\x50" + v.to_bytes(4, "big")
                    t.tx_ins[j].witness.items.append(a)
                    txd["ins"][j]["witness"].append(a)
            elif kind == "annex_pop_inplace":
                j = i % len(txd["ins"])
                body, annex = split_witness(txd["ins"][j]["witness"])
                if annex is not None:
                    t.tx_ins[j].witness.items.pop()
                    txd["ins"][j]["witness"].pop()
            elif kind == "p2tr_annex_spend":
                # the input becomes a taproot spend carrying an annex (key path, or script path over a leaf)
                j = i % len(txd["ins"])
                spk = [0x51, bytes(case["ikey"])]
                a = b"\x50" + v.to_bytes(4, "big")[: 1 + v % 4]
                if v % 2 and leaves:
                    sb, cb = leaves[(v >> 1) % 2]
                    w = [b"\x0b" * 64, sb, cb, a]
                else:
                    w = [b"\x0b" * 64, a]
                spent[j]["spk"] = list(spk)
                t.tx_ins[j]._script_pubkey = Script(list(spk))
                txd["ins"][j]["witness"] = list(w)
                t.tx_ins[j].witness = Witness(list(w))
            elif kind == "sig_insert_inplace":
                j = i % len(txd["ins"])
                if len(txd["ins"][j]["witness"]) >= 2:
                    sig = v.to_bytes(4, "big") * 16
                    t.tx_ins[j].witness.items.insert(0, sig)
                    txd["ins"][j]["witness"].insert(0, sig)
    if n_q == 0:
        raise Discard("no query")
    ctx.nontrivial(requery)
    ctx.label("query_edit_query" if requery else "plain")


# ------------------------------------------------- the digest that verification uses

VKINDS = ["p2pkh", "p2wpkh", "p2sh_2of2", "p2wsh_2of2", "p2tr_key", "p2tr_leaf_p2pk", "p2tr_leaf_2of2"]


@st.composite
def verif_cases(draw):
    n_in = draw(st.integers(1, 3))
    n_out = draw(st.integers(1, 3))
    kind = draw(st.sampled_from(VKINDS))
    taproot = kind.startswith("p2tr")
    hts = HT_TAP if taproot else HT_LEGACY
    return {
        "kind": kind, "n_in": n_in, "idx": draw(st.integers(0, n_in - 1)), "n_out": n_out,
        "secrets": draw(st.lists(gen.uniform_int(1, ec.N - 1), min_size=3, max_size=3, unique=True)),
        "hts": [draw(st.sampled_from(hts)), draw(st.sampled_from(hts))],
        "version": draw(st.sampled_from([1, 2])), "locktime": draw(txgen.u32()),
        "seqs": draw(st.lists(txgen.u32(), min_size=3, max_size=3)),
        "amounts": draw(st.lists(st.integers(0, 2**45), min_size=3, max_size=3)),
        "spent": draw(st.lists(st.integers(0, 2**45), min_size=3, max_size=3)),
        "aux": draw(gen.b32()), "wrong": draw(st.sampled_from([None, None, 0, 1])),
    }


def check_verif(case, ctx):
    """Signatures are made OUTSIDE the library: reference digest of each signature's own hash type, reference
    ECDSA / BIP340 signer.  Input verification accepts them exactly when the digest it computes is the
    specified one (case 'wrong': one signature signs the digest of another hash type than its last byte says,
    and has to be refused)."""
    import hashlib

    kind, idx, n_in = case["kind"], case["idx"], case["n_in"]
    d1, d2, d3 = case["secrets"]
    P1, P2 = ec.mul(d1), ec.mul(d2)
    hts = list(case["hts"])
    for i in (0, 1):  # SINGLE without matching output is its own topic (digest_differential)
        if hts[i] & 3 == 3 and idx >= case["n_out"]:
            hts[i] = (hts[i] & 0x80) | 1
    wrong = case["wrong"]
    two = kind.endswith("2of2")
    if wrong == 1 and not two:
        wrong = 0
    ctx.label("kind:" + kind)
    ctx.label("expect_reject" if wrong is not None else "expect_accept")
    if two and hts[0] != hts[1]:
        ctx.label("two_signatures_of_different_hash_types")
    ctx.nontrivial()
    multisig = [0x52, ec.sec(P1), ec.sec(P2), 0x52, 0xAE]
    ms_b = txser.script_bytes(multisig)
    tap2 = [ec.xonly(P1), 0xAC, ec.xonly(P2), 0xBA, 0x52, 0x87]   # <k1> CHECKSIG <k2> CHECKSIGADD 2 EQUAL
    leaf_code = {"p2tr_leaf_p2pk": [ec.xonly(P1), 0xAC], "p2tr_leaf_2of2": tap2}.get(kind)
    internal = ec.mul(d3)
    if kind == "p2pkh":
        spk = [0x76, 0xA9, ec_hash160(ec.sec(P1)), 0x88, 0xAC]
    elif kind == "p2wpkh":
        spk = [0, ec_hash160(ec.sec(P1))]
    elif kind == "p2sh_2of2":
        spk = [0xA9, ec_hash160(ms_b), 0x87]
    elif kind == "p2wsh_2of2":
        spk = [0, hashlib.sha256(ms_b).digest()]
    elif kind == "p2tr_key":
        from vf.ref import taproot as rt
        _, Q = rt.tweak_pubkey(P1, b"")
        spk = [0x51, ec.xonly(Q)]
    else:
        from vf.ref import taproot as rt
        leaf_b = txser.script_bytes(leaf_code)
        tree = (0xC0, leaf_b)
        root, _ = rt.tree_info(tree)
        _, Q = rt.tweak_pubkey(internal, root)
        spk = [0x51, ec.xonly(Q)]
        cb = rt.control_block(internal, tree, 0)
    txd = {"version": case["version"], "segwit": False, "locktime": case["locktime"],
           "ins": [{"prev_tx": bytes([7 + i]) * 32, "prev_index": i, "script": [], "sequence": case["seqs"][i],
                    "witness": []} for i in range(n_in)],
           "outs": [{"amount": case["amounts"][j], "script": [0x51, bytes([j])]} for j in range(case["n_out"])]}
    spent = [{"amount": case["spent"][i], "spk": (spk if i == idx else [0x51])} for i in range(n_in)]
    ref_spent = [{"amount": s["amount"], "spk": txser.script_bytes(s["spk"])} for s in spent]

    def digest(ht, slot):
        use = ht
        if wrong == slot:  # sign the digest of another type, keep the type byte
            pool = [h for h in (HT_TAP if kind.startswith("p2tr") else HT_LEGACY)
                    if h != ht and not (h & 3 == 3 and idx >= case["n_out"])]
            use = pool[(case["locktime"] + slot) % len(pool)]
        if kind in ("p2pkh", "p2sh_2of2"):
            code = ms_b if two else txser.script_bytes(spk)
            return sighash.legacy(txd, idx, code, use)
        if kind in ("p2wpkh", "p2wsh_2of2"):
            code = ms_b if two else txser.script_bytes([0x76, 0xA9, ec_hash160(ec.sec(P1)), 0x88, 0xAC])
            return sighash.bip143(txd, idx, code, spent[idx]["amount"], use)
        lh = None if kind == "p2tr_key" else sighash.tapleaf_hash(txser.script_bytes(leaf_code), 0xC0)
        return sighash.bip341(txd, idx, ref_spent, use, leaf_hash=lh)

    def ecdsa(d, ht, slot):
        r, s = ec.ecdsa_sign(d, int.from_bytes(digest(ht, slot), "big"))
        return ec.der(r, s) + bytes([ht])

    def schnorr(d, ht, slot):
        sig = ec.schnorr_sign(d, digest(ht, slot), case["aux"])
        return sig + (bytes([ht]) if ht else b"")

    if kind == "p2pkh":
        txd["ins"][idx]["script"] = [ecdsa(d1, hts[0], 0), ec.sec(P1)]
    elif kind == "p2wpkh":
        txd["ins"][idx]["witness"] = [ecdsa(d1, hts[0], 0), ec.sec(P1)]
    elif kind == "p2sh_2of2":
        txd["ins"][idx]["script"] = [0, ecdsa(d1, hts[0], 0), ecdsa(d2, hts[1], 1), ms_b]
    elif kind == "p2wsh_2of2":
        txd["ins"][idx]["witness"] = [b"", ecdsa(d1, hts[0], 0), ecdsa(d2, hts[1], 1), ms_b]
    elif kind == "p2tr_key":
        from vf.ref import taproot as rt
        txd["ins"][idx]["witness"] = [schnorr(rt.tweak_seckey(d1, b""), hts[0], 0)]
    elif kind == "p2tr_leaf_p2pk":
        txd["ins"][idx]["witness"] = [schnorr(d1, hts[0], 0), txser.script_bytes(leaf_code), cb]
    else:
        # stack order: the signature for the LAST key is pushed first
        txd["ins"][idx]["witness"] = [schnorr(d2, hts[1], 1), schnorr(d1, hts[0], 0),
                                      txser.script_bytes(leaf_code), cb]
    txd["segwit"] = any(i["witness"] for i in txd["ins"])
    t = build_tx(txd, spent)
    with time_limit(120):
        st_, ok = attempt(t.verify_input, idx)
    if wrong is None:
        require(st_ == "ok" and ok is True, f"verif/{kind}:signature_over_the_specified_digest_refused",
                f"hash types {[hex(h) for h in hts]} idx={idx} n_in={n_in} n_out={case['n_out']}: {st_}:{ok!r}")
    else:
        require(not (st_ == "ok" and ok), f"verif/{kind}:signature_over_another_digest_accepted",
                f"hash types {[hex(h) for h in hts]} wrong slot {wrong}")


SUBS = [
    Sub("verification_digest", check_verif, strategy=lambda tier: verif_cases(), min_per_shard=4,
        budget={"quick": 300, "thorough": 12000},
        required=["kind:" + k for k in VKINDS] + ["two_signatures_of_different_hash_types", "expect_reject",
                                                  "expect_accept"],
        nontrivial_rule="every case (one input verified with externally made signatures)"),
    Sub("digest_differential", check_diff, strategy=lambda tier: diff_cases(),
        budget={"quick": 30000, "thorough": 1000000},
        required=[f"{a}|ht={h:#x}" for a in ALGOS
                  for h in (HT_TAP if ("341" in a or "p2tr" in a) else HT_LEGACY)]
        + ["annex", "single_out_of_range:legacy", "single_out_of_range:bip143",
           "single_out_of_range:bip341", "single_out_of_range:dispatch"],
        nontrivial_rule="hash type != ALL or more than one input"),
    Sub("history_independence", check_hist, strategy=lambda tier: hist_cases(), stateful=True,
        budget={"quick": 8000, "thorough": 300000},
        required=["edit:" + e for e in EDITS] + ["query_edit_query", "script_path_query", "inplace_leaf_replaced",
                                                    "verify_between_queries", "verify_p2tr_input_with_annex",
                                                    "opening:script_path_requery", "opening:annex_verify_requery"],
        nontrivial_rule="history in which an algorithm family is queried, the tx edited, and the family queried again"),
]
