"""C03 group law (secp256k1 differential + small fields/curves exhaustive) and key encodings."""
from hypothesis import strategies as st

from buidl.pecc import FieldElement, G, Point, S256Point

from vf import gen
from vf.core import Sub, Violation, attempt, require
from vf.ref import ec

N, P = ec.N, ec.P
RULE = (
    "secp_differential: scalar/point operations compared with an independent Jacobian "
    "implementation + algebraic laws; small_fields / small_curves: EXHAUSTIVE over all primes "
    "5..61 (every pair, every triple for p<=31); encodings: valid encodings and a catalogue of "
    "invalid candidates decided by an independent SEC1/BIP340 decoder. Non-trivial: distinct "
    "case records (exhaustive subs: one case = one (prime, first operand))."
)
ASSUMPTIONS = [
    "zero base with exponent multiple of p-1 in FieldElement.__pow__ and negative multipliers of the "
    "generic Point.__rmul__ are outside the property and excluded by construction",
]

PRIMES = [5, 7, 11, 13, 17, 19, 23, 29, 31, 37, 41, 43, 47, 53, 59, 61]


def selftest():
    ec.ensure_selftest()


def pt(p):
    return S256Point(None, None) if p is None else S256Point(p[0], p[1])


def co(q):
    return None if q.x is None else (q.x.num, q.y.num)


SCALAR_EDGES = [0, 1, 2, 3, N - 1, N, N + 1, N - 2, -1, -2, -N, -N - 1, 2 * N, 2 * N + 1,
                2**256, 2**256 + 1, 2**256 - 1, 2**300, 2**300 + 12345, -(2**256), N // 2,
                N // 2 + 1]


def scalars():
    return st.one_of(
        st.sampled_from(SCALAR_EDGES),
        gen.uniform_int(0, N - 1),
        gen.uniform_int(-(2**300), 2**300),
        st.integers(-1000, 1000),
    )


OPS = ["mulG", "add", "mulP", "add_int", "distrib", "assoc_mul", "order", "inverse", "double", "combine"]
# S256Point.combine(points) is a chain of additions; each further term is described relative to the
# running sum (the cases a specialised summation is most likely to get wrong)
TERM_RELS = ["indep", "equal_to_sum", "opposite_of_sum", "infinity", "equal_to_previous", "small"]


def diff_strategy(tier):
    return st.fixed_dictionaries(
        {"op": st.sampled_from(OPS), "a": scalars(), "b": scalars(),
         "rel": st.sampled_from(["indep", "equal", "opposite", "inf_left", "inf_right", "both_inf"]),
         "terms": st.lists(st.tuples(st.sampled_from(TERM_RELS), gen.uniform_int(1, N - 1)),
                           min_size=0, max_size=4)}
    )


def check_diff(case, ctx):
    op, a, b, rel = case["op"], case["a"], case["b"], case["rel"]
    ctx.label("op:" + op)
    ctx.nontrivial()

    def same(got, want, what):
        c = co(got)
        require(ec.on_curve(c), f"diff/{what}:off_curve")
        require(c == want, f"diff/{what}", f"a={a} b={b} rel={rel} got={c} want={want}")

    if op == "mulG":
        same(a * G, ec.mul(a), "mulG")
        if a % N == 0:
            ctx.label("scalar_multiple_of_n")
        if a < 0:
            ctx.label("negative_scalar")
        if a > 2**256:
            ctx.label("scalar>2^256")
    elif op == "add":
        A = ec.mul(a)
        B = ec.mul(b)
        if rel == "equal":
            B = A
        elif rel == "opposite":
            B = ec.neg(A)
        elif rel == "inf_left":
            A = None
        elif rel == "inf_right":
            B = None
        elif rel == "both_inf":
            A = B = None
        ctx.label("add:" + rel)
        same(pt(A) + pt(B), ec.add(A, B), "add:" + rel)
    elif op == "mulP":
        B = ec.mul(b)
        same(a * pt(B), ec.mul(a * b), "mulP")
    elif op == "add_int":
        A = ec.mul(a)
        same(pt(A) + b, ec.add(A, ec.mul(b)), "add_int")
    elif op == "distrib":
        same((a + b) * G, co(a * G + b * G), "distrib")
    elif op == "assoc_mul":
        same(a * (b * G), ec.mul(a * b), "assoc_mul")
    elif op == "order":
        A = ec.mul(a)
        same(N * pt(A), None, "order")
    elif op == "inverse":
        A = ec.mul(a)
        same(pt(A) + pt(ec.neg(A)), None, "inverse")
        if A is not None:
            same(-1 * pt(A), ec.neg(A), "neg")
    elif op == "double":
        A = ec.mul(a)
        same(pt(A) + pt(A), co(2 * pt(A)), "double")
        same(pt(A) + pt(A), ec.mul(2 * a), "double_ref")
    elif op == "combine":
        pts = [ec.mul(a)]
        acc = pts[0]
        for trel, k in case.get("terms", []):
            if trel == "indep":
                q = ec.mul(k)
            elif trel == "equal_to_sum":
                q = acc
            elif trel == "opposite_of_sum":
                q = ec.neg(acc) if acc is not None else None
            elif trel == "infinity":
                q = None
            elif trel == "equal_to_previous":
                q = pts[-1]
            else:
                q = ec.mul(k % 5 + 1)
            ctx.label("combine_term:" + trel)
            pts.append(q)
            acc = ec.add(acc, q)
        ctx.label(f"combine_len:{len(pts)}")
        same(S256Point.combine([pt(q) for q in pts]), acc, "combine")


# ---------------------------------------------------------------- object reuse

POINT_OPS = ["sec_c", "sec_u", "xonly", "even_point", "add_other", "rmul", "neg", "eq", "add_int", "double"]


def reuse_strategy(tier):
    op = st.tuples(st.sampled_from(POINT_OPS), st.integers(0, 2), st.integers(0, 2))
    return st.fixed_dictionaries({
        "ks": st.tuples(gen.secrets(), gen.secrets(), gen.secrets()),
        "mult": st.sampled_from([0, 1, 2, 3, N - 1, N, 5, 2**64 + 1]),
        "ops": st.lists(op, min_size=3, max_size=9),
    })


def check_reuse(case, ctx):
    """the same three S256Point objects answer a sequence of queries; none may depend on earlier ones"""
    ks = case["ks"]
    P_ref = [ec.mul(k) for k in ks]
    objs = [pt(p) for p in P_ref]
    ctx.nontrivial()

    def result_is(got, want, what):
        """a point the library RETURNED is checked through everything it can be asked: coordinates, parity
        and all three encodings (a result object may have inherited state from its operands)"""
        require(co(got) == want, "reuse/" + what)
        if want is None:
            return
        require(got.parity == want[1] % 2, f"reuse/{what}:parity")
        require(got.sec(True) == ec.sec(want, True) and got.sec(False) == ec.sec(want, False)
                and got.xonly() == ec.xonly(want), f"reuse/{what}:encoding_of_result",
                f"result {want[0]:x}: sec={got.sec(True).hex()}")
        require(co(S256Point.parse(got.sec(True))) == want, f"reuse/{what}:result_does_not_round_trip")

    for what, a, b in case["ops"]:
        ctx.label("op:" + what)
        A, o = P_ref[a], objs[a]
        if what == "sec_c":
            require(o.sec(True) == ec.sec(A, True), "reuse/sec_compressed")
        elif what == "sec_u":
            require(o.sec(False) == ec.sec(A, False), "reuse/sec_uncompressed")
        elif what == "xonly":
            require(o.xonly() == ec.xonly(A), "reuse/xonly")
        elif what == "even_point":
            result_is(o.even_point(), (A[0], A[1] if A[1] % 2 == 0 else P - A[1]), "even_point")
            require(co(o) == A, "reuse/even_point_mutated_operand")
        elif what == "add_other":
            result_is(o + objs[b], ec.add(A, P_ref[b]), "add")
            require(co(o) == A and co(objs[b]) == P_ref[b], "reuse/add_mutated_operand")
        elif what == "rmul":
            result_is(case["mult"] * o, ec.mul(case["mult"] * ks[a]), "rmul")
            require(co(o) == A, "reuse/rmul_mutated_operand")
        elif what == "neg":
            result_is(-1 * o, ec.neg(A), "neg")
        elif what == "eq":
            require((o == objs[b]) == (A == P_ref[b]) and (o != objs[b]) == (A != P_ref[b]), "reuse/eq")
        elif what == "add_int":
            result_is(o + case["mult"], ec.add(A, ec.mul(case["mult"])), "add_int")
        elif what == "double":
            result_is(o + o, ec.mul(2 * ks[a]), "double")
    require(co(G) == ec.G, "reuse/generator_mutated")
    for o, A in zip(objs, P_ref):
        require(o.sec(True) == ec.sec(A, True) and o.xonly() == ec.xonly(A), "reuse/operand_encoding_changed")


# --------------------------------------------------------------- small fields


def fields_enum(tier):
    for p in PRIMES:
        for a in range(p):
            yield {"p": p, "a": a}


def check_field(case, ctx):
    p, a = case["p"], case["a"]
    ctx.nontrivial()
    ctx.label(f"p={p}")
    F = lambda v: FieldElement(v, p)  # noqa
    fa = F(a)
    zero, one = F(0), F(1)
    require(fa + zero == fa and fa * one == fa, "field/identity")
    require((fa + F((-a) % p)).num == 0, "field/additive_inverse")
    n_ops = 0
    for b in range(p):
        fb = F(b)
        s = fa + fb
        m = fa * fb
        require(s.num == (a + b) % p and s.prime == p, "field/add", f"p={p} {a}+{b}")
        require(m.num == (a * b) % p, "field/mul", f"p={p} {a}*{b}")
        require((fa - fb).num == (a - b) % p, "field/sub", f"p={p} {a}-{b}")
        require(s == fb + fa and m == fb * fa, "field/commutative")
        require((fa - fb) + fb == fa, "field/sub_inverse")
        if b:
            q = fa / fb
            require(q * fb == fa, "field/div", f"p={p} {a}/{b}")
            require(q.num == a * pow(b, -1, p) % p, "field/div_value")
        require((b * fa).num == (a * b) % p, "field/rmul")
        n_ops += 6
        if p <= 31:
            for c in range(p):
                fc = F(c)
                require((fa + fb) + fc == fa + (fb + fc), "field/assoc_add")
                require((fa * fb) * fc == fa * (fb * fc), "field/assoc_mul")
                require(fa * (fb + fc) == fa * fb + fa * fc, "field/distributive")
                n_ops += 3
    # powers
    if a:
        for e in range(-p, 2 * p + 1):
            want = pow(a, e, p)
            require((fa**e).num == want, "field/pow", f"p={p} {a}**{e}")
    else:
        for e in range(1, p - 1):
            require((fa**e).num == 0, "field/pow_zero_base", f"p={p} 0**{e}")
    require(fa != F((a + 1) % p) and fa == F(a) and not (fa != F(a)), "field/eq")
    for bad in (-1, p, p + 1):
        st_, _ = attempt(FieldElement, bad, p)
        require(st_ == "exc", "field/out_of_range_accepted", f"{bad} in F_{p}")
    ctx.label("field_ops", n_ops)


# --------------------------------------------------------------- small curves


def curve_points(p):
    pts = [None]
    for x in range(p):
        for y in range(p):
            if (y * y - x * x * x - 7) % p == 0:
                pts.append((x, y))
    return pts


def ref_add(p, A, B):
    """affine group law on y^2 = x^3 + 7 over F_p by case analysis"""
    if A is None:
        return B
    if B is None:
        return A
    if A[0] == B[0] and (A[1] + B[1]) % p == 0:
        return None
    if A == B:
        lam = 3 * A[0] * A[0] * pow(2 * A[1], -1, p) % p
    else:
        lam = (B[1] - A[1]) * pow(B[0] - A[0], -1, p) % p
    x = (lam * lam - A[0] - B[0]) % p
    return (x, (lam * (A[0] - x) - A[1]) % p)


CURVE_PRIMES = [p for p in PRIMES if p != 7]
_PTS = {}


def curves_enum(tier):
    for p in CURVE_PRIMES:
        n = len(curve_points(p))
        for i in range(n):
            yield {"p": p, "i": i}


def check_curve(case, ctx):
    p, i = case["p"], case["i"]
    if p not in _PTS:
        _PTS[p] = curve_points(p)
    pts = _PTS[p]
    A = pts[i]
    ctx.nontrivial()
    ctx.label(f"p={p}")
    a, b = FieldElement(0, p), FieldElement(7 % p, p)

    def mk(q):
        if q is None:
            return Point(None, None, a, b)
        return Point(FieldElement(q[0], p), FieldElement(q[1], p), a, b)

    def un(q):
        return None if q.x is None else (q.x.num, q.y.num)

    if A is not None and A[1] == 0:
        ctx.label("order2_point")
    pA = mk(A)
    inf = mk(None)
    require(un(pA + inf) == A and un(inf + pA) == A, "curve/identity")
    ptset = set(pts)
    for B in pts:
        pB = mk(B)
        st_, r = attempt(lambda: pA + pB)
        if st_ == "exc":
            raise Violation("curve/add_raises:" + type(r).__name__,
                            f"p={p} {A}+{B}: {type(r).__name__}: {r}")
        got = un(r)
        require(got == ref_add(p, A, B), "curve/add", f"p={p} {A}+{B} got={got}")
        require(got in ptset, "curve/closure")
        require(got == un(pB + pA), "curve/commutative")
        ctx.label("pair_adds")
        if p <= 31:
            for C in pts:
                pC = mk(C)
                require(un((pA + pB) + pC) == un(pA + (pB + pC)), "curve/associative",
                        f"p={p} {A},{B},{C}")
    if A is not None:
        negA = (A[0], (-A[1]) % p)
        require(un(pA + mk(negA)) is None, "curve/inverse")
    # scalar multiples against repeated addition, 0..2*ord+1
    order = 1
    acc = A
    while acc is not None:
        acc = ref_add(p, acc, A)
        order += 1
    acc = None
    for k in range(0, 2 * order + 2):
        got = un(k * pA)
        require(got == acc, "curve/rmul", f"p={p} {k}*{A} got={got} want={acc}")
        acc = ref_add(p, acc, A)
    # off-curve coordinates in the row x = A.x (or x = i for the infinity index)
    x = A[0] if A is not None else 0
    for y in range(p):
        if (y * y - x * x * x - 7) % p != 0:
            st_, _ = attempt(Point, FieldElement(x, p), FieldElement(y, p), a, b)
            require(st_ == "exc", "curve/off_curve_accepted", f"p={p} ({x},{y})")
            ctx.label("off_curve_rejected")


# ------------------------------------------------------------------ encodings

ENC_KINDS = [
    "valid", "prefix_byte", "x>=p", "x_off_curve", "wrong_y", "uncompressed_bad_prefix",
    "random33", "random65", "random32", "wrong_length", "xonly_zero", "y>=p", "hybrid",
    "valid_x_in_n_p", "valid_small_x", "sec_zero_x",
]


def enc_strategy(tier):
    return st.fixed_dictionaries(
        {
            "kind": st.sampled_from(ENC_KINDS), "a": gen.secrets(),
            "prefix": st.integers(0, 255), "j": st.integers(0, 2**32 + 976),
            "rnd": st.binary(min_size=65, max_size=65),
            "length": st.sampled_from([0, 1, 31, 34, 64, 66, 20, 16, 96]),
            "fmt": st.sampled_from(["c", "u", "x"]),
        }
    )


def check_enc(case, ctx):
    kind, fmt = case["kind"], case["fmt"]
    A = ec.mul(case["a"])
    ctx.label("kind:" + kind)
    ctx.nontrivial()
    b32 = lambda v: v.to_bytes(32, "big")  # noqa
    if kind in ("valid_x_in_n_p", "valid_small_x"):
        # constructed: a curve point whose x lies in [n, p) (a window of ~2^128 values that no scalar
        # multiple generated at random ever hits), or whose x is tiny; nobody knows its discrete log
        x = (N + case["j"]) if kind == "valid_x_in_n_p" else 1 + case["j"] % 1000
        step = 1
        if case["prefix"] & 2 and kind == "valid_x_in_n_p":
            x = P - 1 - case["j"]
            step = -1  # walk down from the top of the field
        A = None
        while A is None:
            A = ec.lift_x(x, odd=bool(case["prefix"] & 1))
            if A is None:
                x += step
        assert kind == "valid_small_x" or N <= A[0] < P
        kind = "valid"
    if kind == "valid":
        p = pt(A)
        require(p.sec(True) == ec.sec(A, True), "enc/sec_compressed")
        require(p.sec(False) == ec.sec(A, False), "enc/sec_uncompressed")
        require(p.xonly() == ec.xonly(A), "enc/xonly")
        for blob in (ec.sec(A, True), ec.sec(A, False)):
            q = S256Point.parse(blob)
            require(co(q) == A, "enc/roundtrip", blob.hex())
            require(co(S256Point.parse_sec(blob)) == A, "enc/roundtrip_parse_sec")
        q = S256Point.parse(ec.xonly(A))
        require(co(q) == (A[0], A[1] if A[1] % 2 == 0 else P - A[1]), "enc/roundtrip_xonly")
        ctx.label("parity=%d" % (A[1] & 1))
        return
    if kind == "prefix_byte":
        base = ec.sec(A, fmt != "u")
        cand = bytes([case["prefix"]]) + base[1:]
    elif kind == "x>=p":
        x = b32(P + case["j"])
        cand = {"c": b"\x02" + x, "u": b"\x04" + x + b32(A[1]), "x": x}[fmt]
    elif kind == "x_off_curve":
        x = A[0]
        while ec.lift_x(x) is not None:
            x = (x + 1) % P
        cand = {"c": bytes([2 + (case["prefix"] & 1)]) + b32(x), "u": b"\x04" + b32(x) + b32(A[1]),
                "x": b32(x)}[fmt]
    elif kind == "wrong_y":
        cand = b"\x04" + b32(A[0]) + b32((A[1] + 1 + case["j"]) % P)
    elif kind == "y>=p":
        if A[1] + P >= 2**256:
            cand = b"\x04" + b32(A[0]) + b32(2**256 - 1)
        else:
            cand = b"\x04" + b32(A[0]) + b32(A[1] + P)
    elif kind == "uncompressed_bad_prefix":
        cand = bytes([2 + (case["prefix"] & 1)]) + ec.sec(A, False)[1:]
    elif kind == "hybrid":
        cand = bytes([6 + (A[1] & 1)]) + ec.sec(A, False)[1:]
    elif kind == "random33":
        cand = case["rnd"][:33]
    elif kind == "random65":
        cand = case["rnd"]
    elif kind == "random32":
        cand = case["rnd"][:32]
    elif kind == "wrong_length":
        cand = (ec.sec(A, False) * 2)[: case["length"]]
    elif kind == "xonly_zero":
        cand = bytes(32)
    elif kind == "sec_zero_x":
        # x = 0 is not on the curve (7 is not a square); the x-only convention "zero means infinity"
        # does not extend to SEC encodings
        cand = [b"\x02" + bytes(32), b"\x03" + bytes(32), b"\x04" + bytes(64),
                b"\x04" + bytes(32) + b32(A[1]), b"\x02" + bytes(64), b"\x03" + bytes(64)][case["prefix"] % 6]
    else:
        raise AssertionError(kind)
    if len(cand) == 32:
        want = ec.parse_xonly(cand)
    else:
        want = ec.parse_sec(cand)
    st_, got = attempt(S256Point.parse, cand)
    if want is None:
        ctx.label("ref_rejects")
        # the library's documented x-only convention: 32 zero bytes stand for the point at infinity
        # (no curve point is returned); every other candidate has to raise
        ok = st_ == "exc" or (cand == bytes(32) and got is not None and got.x is None)
        require(ok, f"enc/accepts_invalid:{kind}", f"{cand.hex()} -> {got!r}")
    else:
        ctx.label("ref_accepts")
        require(st_ == "ok" and co(got) == want, f"enc/rejects_or_misparses_valid:{kind}",
                f"{cand.hex()} -> {st_}:{got!r}")
    # the specialised entry point must agree as well
    if len(cand) in (33, 65):
        st2, got2 = attempt(S256Point.parse_sec, cand)
        if want is None:
            require(st2 == "exc", f"enc/parse_sec_accepts_invalid:{kind}", cand.hex())


SUBS = [
    Sub("secp_differential", check_diff, strategy=diff_strategy,
        budget={"quick": 5000, "thorough": 100000},
        required=["op:" + o for o in OPS] + ["scalar_multiple_of_n", "negative_scalar",
                                            "scalar>2^256", "add:equal", "add:opposite",
                                            "add:both_inf"]),
    Sub("point_object_reuse", check_reuse, strategy=reuse_strategy, stateful=True,
        budget={"quick": 400, "thorough": 15000}, required=["op:" + o for o in POINT_OPS],
        nontrivial_rule="every history (3..9 operations on the same point objects)"),
    Sub("small_fields_exhaustive", check_field, kind="exhaustive", enumerate=fields_enum,
        nontrivial_rule="one case = all pairs/triples with a fixed first operand in F_p"),
    Sub("small_curves_exhaustive", check_curve, kind="exhaustive", enumerate=curves_enum,
        required=["order2_point", "off_curve_rejected"],
        nontrivial_rule="one case = one point of one curve against all other points (and pairs for p<=31)"),
    Sub("encodings", check_enc, strategy=enc_strategy,
        budget={"quick": 6000, "thorough": 150000},
        required=["kind:" + k for k in ENC_KINDS] + ["ref_accepts", "ref_rejects"]),
]
