"""C11 PSBT review summary: totals are right, change is only what the wallet can spend, tampering raises."""
import hashlib
from io import BytesIO

from hypothesis import strategies as st

from buidl.hd import HDPublicKey
from buidl.psbt import PSBT, NamedHDPublicKey
from buidl.psbt_helper import create_multisig_psbt
from buidl.script import Script, WitnessScript
from buidl.tx import Tx, TxIn, TxOut

from vf.core import Discard, Sub, attempt, must, require
from vf.gen import choice, rand_bytes
from vf.ref import bip32, ec, psbtmap, txser

HARD = bip32.HARD
RULE = (
    "honest_summary: m-of-n wallets (P2SH through create_multisig_psbt, P2WSH through PSBT.create with "
    "lookups), 1..2 inputs, 1..2 spends, optional change at a change-branch path; the summary must satisfy "
    "fee = inputs - outputs, spend + change + fee = inputs, and label exactly the wallet's output as change. "
    "tampering: each honest PSBT x one tampering applied with an independent byte-level PSBT editor, then "
    "re-parsed and described with the reviewer's trusted xpub map. Ground truth for 'is change' is computed "
    "from the PSBT bytes by an independent BIP32/script model. Non-trivial: tampered cases."
)
ASSUMPTIONS = [
    "the reviewer supplies hdpubkey_map = the wallet's real account xpubs (trusted), the PSBT is untrusted",
    "a changed amount in a WITNESS utxo without signatures cannot be detected by any PSBTv0 reviewer and is "
    "not asserted",
]
ACCT = 45


def selftest():
    bip32.ensure_selftest()
    psbtmap.selftest()


def sha256(b):
    return hashlib.sha256(b).digest()


class Model:
    """reference model of an m-of-n wallet"""

    def __init__(self, seeds, m):
        self.m, self.n = m, len(seeds)
        self.roots = [bip32.Node.master(s) for s in seeds]
        self.xfps = [r.fingerprint() for r in self.roots]
        self.accts = [r.derive([ACCT + HARD]) for r in self.roots]
        self.xpubs = [a.xpub() for a in self.accts]

    def secs(self, branch, idx, who=None):
        accts = self.accts if who is None else [self.accts[w] for w in who]
        return [ec.sec(a.derive([branch, idx]).K) for a in accts]

    @staticmethod
    def multisig(m, secs):
        return txser.script_bytes([0x50 + m] + sorted(secs) + [0x50 + len(secs), 0xAE])

    def script(self, branch, idx):
        return self.multisig(self.m, self.secs(branch, idx))

    @staticmethod
    def spk(script, kind):
        if kind == "p2sh":
            return b"\xa9\x14" + bip32.hash160(script) + b"\x87"
        return b"\x00\x20" + sha256(script)

    def deriv_value(self, s, branch, idx):
        return self.xfps[s] + b"".join(x.to_bytes(4, "little") for x in (ACCT + HARD, branch, idx))

    def truth_is_change(self, pm, out_index, inputs_m):
        """ground truth for one output of a parsed PSBT map"""
        kvs = pm["outputs"][out_index]
        spk = pm["tx"]["outs"][out_index]["spk"]
        derivs = [(k[1:], v) for k, v in kvs if k[:1] == b"\x02"]
        if len(derivs) != self.n:
            return False
        seen = set()
        for sec, val in derivs:
            xfp, path = val[:4], val[4:]
            if xfp not in self.xfps or xfp in seen or len(path) % 4 or len(path) < 4:
                return False
            seen.add(xfp)
            idx = [int.from_bytes(path[i:i + 4], "little") for i in range(0, len(path), 4)]
            if idx[0] != ACCT + HARD or any(i >= HARD for i in idx[1:]):
                return False
            node = self.roots[self.xfps.index(xfp)]
            try:
                node = node.derive(idx)
            except ValueError:
                return False
            if ec.sec(node.K) != sec:
                return False
        script = self.multisig(inputs_m, [d[0] for d in derivs])
        return spk in (self.spk(script, "p2sh"), self.spk(script, "p2wsh"))


@st.composite
def wallet_cases(draw):
    n = draw(st.integers(1, 3))
    m = draw(st.integers(1, n))
    n_in = draw(st.integers(1, 2))
    return {
        "kind": draw(st.sampled_from(["p2sh", "p2wsh"])), "m": m, "n": n, "n_in": n_in,
        "seeds": list(draw(st.tuples(*[rand_bytes(16) for _ in range(3)]))[:n]),
        "attacker_seed": draw(rand_bytes(17)),
        "in_idx": draw(st.lists(st.integers(0, 30), min_size=2, max_size=2, unique=True)),
        "in_amounts": draw(st.lists(st.integers(100000, 10**9), min_size=2, max_size=2)),
        "prev_out_index": draw(st.lists(st.integers(0, 2), min_size=2, max_size=2)),
        "n_spends": draw(st.integers(1, 3)),
        "same_spend_address": draw(st.sampled_from([False, False, True])),
        "has_change": draw(st.booleans()),
        "change_idx": draw(st.integers(0, 30)),
        "change_first": draw(st.booleans()),
        "spend_fraction": draw(st.lists(st.integers(1, 40), min_size=3, max_size=3)),
        "fee": draw(st.integers(1000, 50000)),
        # global xpub records are optional in a PSBT: without them nothing but the summary itself checks
        # the key derivations
        "strip_global_xpubs": draw(st.booleans()),
    }


TAMPER_OUT = ["out_spk_attacker_p2sh", "out_spk_attacker_p2wsh", "out_spk_p2pkh", "out_spk_p2wpkh",
              "out_spk_p2tr", "out_script_foreign", "out_script_and_spk_foreign", "out_foreign_fingerprint",
              "out_wrong_path", "out_keys_from_one_cosigner", "out_changed_quorum", "second_change_output",
              "out_noncanonical_script_all_keys", "out_noncanonical_script_extra_ops",
              "out_script_one_genuine_key_rest_foreign",
              "spend_gets_change_metadata", "out_amount_changed",
              # not an attack: a payment to a script without an address form (or of an unusual kind); the
              # summary may refuse it, but if it is given its sums must still add up
              "spend_script_kind", "spend_script_kind",
              # not an attack either: a segwit input that carries both UTXO forms, in agreement
              "both_utxo_forms_consistent", "p2wsh_prev_tx_only_honest"]
SPEND_KINDS = ["op_return_zero", "op_return_value", "op_return_value", "p2sh", "p2wpkh", "p2wsh", "p2tr",
               "p2pk", "bare_multisig", "empty", "op_true", "witness_v2"]
TAMPER_IN = ["in_foreign_script", "in_wrong_path", "in_foreign_fingerprint", "in_key_swapped",
             "in_prev_tx_amount", "in_prev_tx_other", "in_changed_quorum_script",
             "in_witness_utxo_contradicts_prev_tx", "in_p2sh_as_witness_utxo_foreign_script",
             "in_paths_copied_from_other_input", "in_p2wsh_prev_tx_only_foreign_script"]


_TAMPER_CHOICE = choice(TAMPER_OUT + TAMPER_IN)


@st.composite
def tamper_cases(draw):
    c = draw(wallet_cases())
    c["tamper"] = draw(_TAMPER_CHOICE)
    c["which"] = draw(st.integers(0, 5))
    c["delta"] = draw(st.integers(1, 1000))
    if c["tamper"].startswith("out_") or c["tamper"] in ("second_change_output",):
        c["has_change"] = True
    if c["tamper"] == "in_paths_copied_from_other_input":
        c["n_in"] = 2
    # tamperings that exist for one wallet kind only get that kind (instead of being discarded half the time)
    if c["tamper"] in ("in_witness_utxo_contradicts_prev_tx", "both_utxo_forms_consistent",
                       "p2wsh_prev_tx_only_honest", "in_p2wsh_prev_tx_only_foreign_script"):
        c["kind"] = "p2wsh"
    if c["tamper"] in ("in_p2sh_as_witness_utxo_foreign_script", "in_prev_tx_amount", "in_prev_tx_other"):
        c["kind"] = "p2sh"
    if c["tamper"] in ("out_keys_from_one_cosigner", "out_changed_quorum", "in_changed_quorum_script",
                       "out_noncanonical_script_all_keys", "out_script_one_genuine_key_rest_foreign") and c["n"] < 2:
        c["n"], c["m"] = 2, min(c["m"], 2)
        if len(c["seeds"]) < 2:
            c["seeds"] = list(c["seeds"]) + [c["attacker_seed"][:16][::-1]]
    return c


def build(case):
    """returns (Model, honest PSBT bytes, hdpubkey_map, info)"""
    model = Model(case["seeds"], case["m"])
    kind, m, n = case["kind"], case["m"], model.n
    xfp_hex = [x.hex() for x in model.xfps]
    total_in = 0
    prevs = []
    for j in range(case["n_in"]):
        idx = case["in_idx"][j]
        spk = Model.spk(model.script(0, idx), kind)
        amount = case["in_amounts"][j]
        oi = case["prev_out_index"][j]
        outs = [{"amount": 777 + k, "script": [0x51]} for k in range(oi)] + \
               [{"amount": amount, "script": [sighash_raw(spk)]}]
        prev = {"version": 1, "segwit": False, "locktime": 0,
                "ins": [{"prev_tx": bytes([j + 7]) * 32, "prev_index": 0, "script": [], "sequence": 0xFFFFFFFF,
                         "witness": []}], "outs": outs}
        prevs.append({"raw": txser.serialize(prev), "hash": txser.txid(prev), "oi": oi, "amount": amount,
                      "idx": idx})
        total_in += amount
    fee = case["fee"]
    spendable = total_in - fee
    outs = []
    remaining = spendable
    for k in range(case["n_spends"]):
        amt = max(1000, spendable * case["spend_fraction"][k] // 100)
        # two spends may pay the SAME address (their amounts still have to add up in the summary)
        tag = 1 if case.get("same_spend_address") else k + 1
        outs.append({"kind": "spend", "amount": amt, "spk": b"\x76\xa9\x14" + bytes([tag]) * 20 + b"\x88\xac"})
        remaining -= amt
    if case["has_change"]:
        outs.append({"kind": "change", "amount": remaining, "idx": case["change_idx"],
                     "spk": Model.spk(model.script(1, case["change_idx"]), kind)})
        if case["change_first"]:
            outs.insert(0, outs.pop())
    else:
        outs[-1]["amount"] += remaining
    if any(o["amount"] <= 0 for o in outs):
        raise Discard("amounts")
    hmap = {xfp_hex[s]: HDPublicKey.parse(model.xpubs[s]) for s in range(n)}
    if kind == "p2sh":
        records = [[xfp_hex[s], model.xpubs[s], f"m/{ACCT}'"] for s in range(n)]
        input_dicts = []
        for p in prevs:
            input_dicts.append({
                "quorum_m": m,
                "path_dict": {xfp_hex[s]: f"m/{ACCT}'/0/{p['idx']}" for s in range(n)},
                "prev_tx_dict": {"hex": p["raw"].hex(), "hash_hex": p["hash"].hex(), "output_idx": p["oi"],
                                 "output_sats": p["amount"]},
            })
        output_dicts = []
        for o in outs:
            addr = Script.parse(raw=o["spk"])
            from buidl.script import ScriptPubKey

            addr = ScriptPubKey.parse(BytesIO(txser.varstr(o["spk"]))).address("mainnet")
            d = {"sats": o["amount"], "address": addr}
            if o["kind"] == "change":
                d["quorum_m"] = m
                d["path_dict"] = {xfp_hex[s]: f"m/{ACCT}'/1/{o['idx']}" for s in range(n)}
            output_dicts.append(d)
        psbt = must(create_multisig_psbt, "honest/create_multisig_psbt", records, input_dicts, output_dicts, fee)
    else:
        pubkey_lookup, witness_lookup, tx_lookup, hd_pubs = {}, {}, {}, {}
        accts = [HDPublicKey.parse(x) for x in model.xpubs]

        def add_keys(branch, idx):
            for s in range(n):
                child = HDPublicKey.parse(model.xpubs[s]).traverse(f"m/{branch}/{idx}")
                named = NamedHDPublicKey.from_hd_pub(child, xfp_hex[s], f"m/{ACCT}'/{branch}/{idx}")
                pubkey_lookup[named.sec()] = named
            ws = WitnessScript.parse(BytesIO(txser.varstr(model.script(branch, idx))))
            witness_lookup[ws.sha256()] = ws

        tx_ins = []
        for p in prevs:
            add_keys(0, p["idx"])
            ptx = Tx.parse(BytesIO(p["raw"]))
            tx_lookup[ptx.hash()] = ptx
            tx_ins.append(TxIn(p["hash"], p["oi"]))
        for o in outs:
            if o["kind"] == "change":
                add_keys(1, o["idx"])
        for s in range(n):
            named = NamedHDPublicKey.from_hd_pub(accts[s], xfp_hex[s], f"m/{ACCT}'")
            hd_pubs[named.raw_serialize()] = named
        from buidl.script import ScriptPubKey

        tx_outs = [TxOut(o["amount"], ScriptPubKey.parse(BytesIO(txser.varstr(o["spk"])))) for o in outs]
        tx = Tx(1, tx_ins, tx_outs, 0, network="mainnet", segwit=True)
        psbt = must(PSBT.create, "honest/PSBT.create", tx, True, tx_lookup, pubkey_lookup, {}, witness_lookup,
                    hd_pubs)
    blob = psbt.serialize()
    info = {"total_in": total_in, "fee": fee, "outs": outs, "prevs": prevs}
    return model, blob, hmap, info


def sighash_raw(spk):
    from vf.ref.sighash import _Raw

    return _Raw(spk)


def parse_own(blob):
    """the library's own honest PSBT must be a well-formed BIP174 PSBT"""
    st_, pm = attempt(psbtmap.parse, blob)
    require(st_ == "ok", "honest/psbt_is_not_bip174", f"{pm}")
    return pm


def describe(blob, hmap):
    def run():
        p = PSBT.parse(BytesIO(blob))
        return p.describe_basic_multisig(hdpubkey_map=hmap)
    return attempt(run)


def input_total(pm):
    total = 0
    for kvs, tin in zip(pm["inputs"], pm["tx"]["ins"]):
        d = dict(kvs)
        if b"\x00" in d:  # the previous transaction (bound to the outpoint by its id) is authoritative
            total += psbtmap.read_tx_legacy(d[b"\x00"])["outs"][tin["index"]]["amount"]
        elif b"\x01" in d:
            total += int.from_bytes(d[b"\x01"][:8], "little")
    return total


def check_summary(desc, pm, model, bucket):
    """what the statement demands of any summary that is returned"""
    tin = input_total(pm)
    tout = sum(o["amount"] for o in pm["tx"]["outs"])
    require(desc["tx_fee_sats"] == tin - tout, bucket + "/fee_is_not_inputs_minus_outputs",
            f"{desc['tx_fee_sats']} vs {tin}-{tout}")
    require(desc["spend_sats"] + desc["change_sats"] + desc["tx_fee_sats"] == tin,
            bucket + "/spend_plus_change_plus_fee_is_not_inputs")
    require(desc["total_input_sats"] == tin and desc["total_output_sats"] == tout, bucket + "/totals")
    require(len(desc["outputs_desc"]) == len(pm["tx"]["outs"]), bucket + "/output_count")
    m = int(desc["inputs_desc"][0]["quorum"].split("-of-")[0])
    change_sum = 0
    for i, od in enumerate(desc["outputs_desc"]):
        require(od["sats"] == pm["tx"]["outs"][i]["amount"], bucket + "/output_amount")
        if od["is_change"]:
            change_sum += od["sats"]
            require(model.truth_is_change(pm, i, m), bucket + "/output_labelled_change_is_not_the_wallets",
                    f"output {i} spk={pm['tx']['outs'][i]['spk'].hex()}")
    require(change_sum == desc["change_sats"], bucket + "/change_sats")


def check_honest(case, ctx):
    model, blob, hmap, info = build(case)
    ctx.label("kind:" + case["kind"])
    ctx.label(f"m={model.m},n={model.n}")
    ctx.label("with_change" if case["has_change"] else "sweep")
    if case.get("same_spend_address") and case["n_spends"] >= 2:
        ctx.label("duplicate_spend_address")
    ctx.nontrivial(case["has_change"] or model.n >= 2)
    pm = parse_own(blob)
    if case.get("strip_global_xpubs"):
        pm["global"] = [(k, v) for k, v in pm["global"] if k[:1] != b"\x01"]
        blob = psbtmap.serialize(pm)
        ctx.label("without_global_xpubs")
    st_, desc = describe(blob, hmap)
    require(st_ == "ok", "honest/describe_raises", f"{type(desc).__name__}: {desc}"[:300])
    check_summary(desc, pm, model, "honest")
    require(desc["tx_fee_sats"] == info["fee"], "honest/fee")
    for i, o in enumerate(info["outs"]):
        want = o["kind"] == "change"
        require(desc["outputs_desc"][i]["is_change"] == want, "honest/change_label_wrong",
                f"output {i} is {'change' if want else 'a spend'}")
    want_change = sum(o["amount"] for o in info["outs"] if o["kind"] == "change")
    require(desc["change_sats"] == want_change, "honest/change_sats")
    require(desc["spend_sats"] == sum(o["amount"] for o in info["outs"] if o["kind"] == "spend"),
            "honest/spend_sats")


def check_tamper(case, ctx):
    t = case["tamper"]
    model, blob, hmap, info = build(case)
    kind, m, n = case["kind"], model.m, model.n
    ctx.label("tamper:" + t)
    ctx.label("kind:" + kind)
    ctx.nontrivial()
    pm = parse_own(blob)
    att = bip32.Node.master(case["attacker_seed"])
    att_secs = [ec.sec(att.derive([i]).K) for i in range(max(n, 1))]
    att_script = Model.multisig(m, att_secs)
    ci = next((i for i, o in enumerate(info["outs"]) if o["kind"] == "change"), None)
    SCRIPT_KEY = b"\x00" if kind == "p2sh" else b"\x01"  # output map: redeem / witness script
    IN_SCRIPT_KEY = b"\x04" if kind == "p2sh" else b"\x05"
    w, d = case["which"], case["delta"]
    tx = pm["tx"]

    def set_kv(kvs, key, value):
        for i, (k, v) in enumerate(kvs):
            if k == key:
                kvs[i] = (k, value)
                return True
        return False

    def derivs(kvs, typ):
        return [(i, k, v) for i, (k, v) in enumerate(kvs) if k[:1] == typ]

    input_tamper = t in TAMPER_IN
    if t.startswith("out_spk"):
        new = {"out_spk_attacker_p2sh": Model.spk(att_script, "p2sh"),
               "out_spk_attacker_p2wsh": Model.spk(att_script, "p2wsh"),
               "out_spk_p2pkh": b"\x76\xa9\x14" + bip32.hash160(att_secs[0]) + b"\x88\xac",
               "out_spk_p2wpkh": b"\x00\x14" + bip32.hash160(att_secs[0]),
               "out_spk_p2tr": b"\x51\x20" + att_secs[0][1:]}[t]
        tx["outs"][ci]["spk"] = new
        psbtmap.set_tx(pm, tx)
    elif t == "out_script_foreign":
        set_kv(pm["outputs"][ci], SCRIPT_KEY, att_script)
    elif t == "out_script_and_spk_foreign":
        set_kv(pm["outputs"][ci], SCRIPT_KEY, att_script)
        tx["outs"][ci]["spk"] = Model.spk(att_script, kind)
        psbtmap.set_tx(pm, tx)
    elif t in ("out_foreign_fingerprint", "in_foreign_fingerprint"):
        kvs = pm["outputs"][ci] if t[:3] == "out" else pm["inputs"][w % len(pm["inputs"])]
        ds = derivs(kvs, b"\x02" if t[:3] == "out" else b"\x06")
        i, k, v = ds[w % len(ds)]
        kvs[i] = (k, att.fingerprint() + v[4:])
    elif t in ("out_wrong_path", "in_wrong_path"):
        kvs = pm["outputs"][ci] if t[:3] == "out" else pm["inputs"][w % len(pm["inputs"])]
        ds = derivs(kvs, b"\x02" if t[:3] == "out" else b"\x06")
        i, k, v = ds[w % len(ds)]
        last = int.from_bytes(v[-4:], "little")
        kvs[i] = (k, v[:-4] + ((last + d) % HARD).to_bytes(4, "little"))
    elif t == "out_keys_from_one_cosigner":
        if n < 2:
            raise Discard("needs n >= 2")
        who = w % n
        idxs = [case["change_idx"] + 40 + i for i in range(n)]
        secs = [ec.sec(model.accts[who].derive([1, i]).K) for i in idxs]
        script = Model.multisig(m, secs)
        tx["outs"][ci]["spk"] = Model.spk(script, kind)
        psbtmap.set_tx(pm, tx)
        kvs = [(k, v) for k, v in pm["outputs"][ci] if k[:1] not in (b"\x02", SCRIPT_KEY)]
        kvs.append((SCRIPT_KEY, script))
        for sec, i in zip(secs, idxs):
            kvs.append((b"\x02" + sec, model.deriv_value(who, 1, i)))
        pm["outputs"][ci] = kvs
    elif t == "out_script_one_genuine_key_rest_foreign":
        # the change script holds ONE genuine change key, the other n-1 keys are the attacker's; the output
        # still declares a genuine derivation for every cosigner (only one of them occurs in the script)
        if n < 2:
            raise Discard("needs n >= 2")
        genuine = model.secs(1, case["change_idx"])
        keep = w % n
        script = Model.multisig(m, [genuine[keep]] + att_secs[: n - 1])
        tx["outs"][ci]["spk"] = Model.spk(script, kind)
        psbtmap.set_tx(pm, tx)
        set_kv(pm["outputs"][ci], SCRIPT_KEY, script)
    elif t in ("out_changed_quorum", "in_changed_quorum_script"):
        if n < 2:
            raise Discard("needs n >= 2")
        m2 = m + 1 if m < n else m - 1
        if t == "out_changed_quorum":
            script = Model.multisig(m2, model.secs(1, case["change_idx"]))
            tx["outs"][ci]["spk"] = Model.spk(script, kind)
            psbtmap.set_tx(pm, tx)
            set_kv(pm["outputs"][ci], SCRIPT_KEY, script)
        else:
            j = w % len(pm["inputs"])
            script = Model.multisig(m2, model.secs(0, info["prevs"][j]["idx"]))
            set_kv(pm["inputs"][j], IN_SCRIPT_KEY, script)
    elif t in ("out_noncanonical_script_all_keys", "out_noncanonical_script_extra_ops"):
        # the change script still starts with OP_m, ends with OP_n OP_CHECKMULTISIG and contains every genuine
        # change key (so all derivations check out), but it is NOT the m-of-n over those keys
        keys = sorted(model.secs(1, case["change_idx"]))
        if t == "out_noncanonical_script_all_keys":
            if n < 2:
                raise Discard("needs n >= 2")
            # OP_m k1..k(n-1) <drop them> OP_1 a1.. k_n OP_n CHECKMULTISIG : really 1-of-n over attacker keys
            toks = [0x50 + m] + keys[:-1] + [0x75] * (n - 1) + [0x75, 0x51] + att_secs[: n - 1] + [keys[-1]] \
                + [0x50 + n, 0xAE]
        else:
            # canonical prefix, then OP_DROP OP_1: anyone can spend
            toks = [0x50 + m] + keys + [0x50 + n, 0xAE, 0x75, 0x51, 0x50 + n, 0xAE]
        script = txser.script_bytes(toks)
        tx["outs"][ci]["spk"] = Model.spk(script, kind)
        psbtmap.set_tx(pm, tx)
        set_kv(pm["outputs"][ci], SCRIPT_KEY, script)
    elif t == "second_change_output":
        # a second output with valid change metadata (different change index)
        idx2 = case["change_idx"] + 1
        script = model.script(1, idx2)
        tx["outs"].append({"amount": 1, "spk": Model.spk(script, kind)})
        tx["outs"][ci]["amount"] -= 1
        if tx["outs"][ci]["amount"] <= 0:
            raise Discard("amounts")
        psbtmap.set_tx(pm, tx)
        kvs = [(SCRIPT_KEY, script)]
        for s, sec in enumerate(model.secs(1, idx2)):
            kvs.append((b"\x02" + sec, model.deriv_value(s, 1, idx2)))
        pm["outputs"].append(kvs)
    elif t == "spend_gets_change_metadata":
        # change metadata copied onto an output that pays somebody else
        if ci is None:
            raise Discard("no change")
        si = next(i for i, o in enumerate(info["outs"]) if o["kind"] == "spend")
        pm["outputs"][si] = list(pm["outputs"][ci])
        pm["outputs"][ci] = []
    elif t == "out_amount_changed":
        tx["outs"][w % len(tx["outs"])]["amount"] += d
        psbtmap.set_tx(pm, tx)
    elif t == "spend_script_kind":
        spends = [i for i, o in enumerate(info["outs"]) if o["kind"] == "spend"]
        si = spends[w % len(spends)]
        sk = SPEND_KINDS[d % len(SPEND_KINDS)]
        ctx.label("spend_kind:" + sk)
        h20, h32 = bip32.hash160(att_secs[0]), sha256(att_secs[0])
        new = {"op_return_zero": b"\x6a\x04" + d.to_bytes(4, "big"),
               "op_return_value": b"\x6a\x04" + d.to_bytes(4, "big"),
               "p2sh": b"\xa9\x14" + h20 + b"\x87", "p2wpkh": b"\x00\x14" + h20, "p2wsh": b"\x00\x20" + h32,
               "p2tr": b"\x51\x20" + att_secs[0][1:], "p2pk": b"\x21" + att_secs[0] + b"\xac",
               "bare_multisig": Model.multisig(1, att_secs[:1]), "empty": b"", "op_true": b"\x51",
               "witness_v2": b"\x52\x20" + h32}[sk]
        tx["outs"][si]["spk"] = new
        if sk == "op_return_zero":
            tx["outs"][si]["amount"] = 0
        psbtmap.set_tx(pm, tx)
    elif t == "in_foreign_script":
        set_kv(pm["inputs"][w % len(pm["inputs"])], IN_SCRIPT_KEY, att_script)
    elif t == "in_key_swapped":
        kvs = pm["inputs"][w % len(pm["inputs"])]
        ds = derivs(kvs, b"\x06")
        i, k, v = ds[w % len(ds)]
        kvs[i] = (b"\x06" + att_secs[0], v)
    elif t in ("in_prev_tx_amount", "in_prev_tx_other"):
        j = w % len(pm["inputs"])
        ent = [(i, k, v) for i, (k, v) in enumerate(pm["inputs"][j]) if k == b"\x00"]
        if not ent:
            raise Discard("witness utxo: amount changes are undetectable in PSBTv0 (not asserted)")
        i, k, v = ent[0]
        ptx = psbtmap.read_tx_legacy(v)
        if t == "in_prev_tx_amount":
            ptx["outs"][tx["ins"][j]["index"]]["amount"] += d
        else:
            ptx["ins"][0]["prev"] = bytes(32)
        pm["inputs"][j][i] = (k, psbtmap.write_tx_legacy(ptx))
    elif t == "p2wsh_prev_tx_only_honest":
        if kind != "p2wsh":
            raise Discard("p2wsh inputs only")
        j = w % len(pm["inputs"])
        kvs = [(k, v) for k, v in pm["inputs"][j] if k != b"\x01"]
        pm["inputs"][j] = [(b"\x00", info["prevs"][j]["raw"])] + kvs
    elif t == "in_p2wsh_prev_tx_only_foreign_script":
        # a segwit input that carries only the previous transaction (allowed by BIP174), with a witness
        # script the spent output does not commit to
        if kind != "p2wsh":
            raise Discard("p2wsh inputs only")
        j = w % len(pm["inputs"])
        p = info["prevs"][j]
        kvs = [(k, v) for k, v in pm["inputs"][j] if k != b"\x01"]
        pm["inputs"][j] = [(b"\x00", p["raw"])] + kvs
        if d % 4:
            set_kv(pm["inputs"][j], IN_SCRIPT_KEY, att_script)
        else:  # the m of the genuine script changed
            m2 = m + 1 if m < n else max(1, m - 1)
            if m2 == m:
                raise Discard("1-of-1")
            set_kv(pm["inputs"][j], IN_SCRIPT_KEY, Model.multisig(m2, model.secs(0, p["idx"])))
    elif t == "in_paths_copied_from_other_input":
        # every key of one input declares the derivation path of the OTHER input's address: paths that are
        # genuine for the wallet (and checked when the other input is examined), but wrong for these keys
        j = 1 if w % 3 else 0  # mostly the LATER input (its paths were seen, and verified, on the earlier one)
        other_idx = info["prevs"][1 - j]["idx"]
        kvs = pm["inputs"][j]
        for i, k, v in derivs(kvs, b"\x06"):
            kvs[i] = (k, v[:-4] + other_idx.to_bytes(4, "little"))
        ctx.label("copied_paths_on_first_input" if j == 0 else "copied_paths_on_second_input")
    elif t == "in_p2sh_as_witness_utxo_foreign_script":
        # a legacy P2SH input presented with a witness UTXO (same scriptPubKey and amount) instead of the
        # previous transaction, and with a redeem script the scriptPubKey does not commit to
        if kind != "p2sh":
            raise Discard("legacy P2SH inputs only")
        j = w % len(pm["inputs"])
        p = info["prevs"][j]
        spk = Model.spk(model.script(0, p["idx"]), kind)
        kvs = [(k, v) for k, v in pm["inputs"][j] if k != b"\x00"]
        pm["inputs"][j] = [(b"\x01", p["amount"].to_bytes(8, "little") + txser.varstr(spk))] + kvs
        set_kv(pm["inputs"][j], IN_SCRIPT_KEY, att_script)
    elif t == "both_utxo_forms_consistent":
        if kind != "p2wsh":
            raise Discard("witness UTXOs belong to segwit inputs")
        j = w % len(pm["inputs"])
        p = info["prevs"][j]
        kvs = [(k, v) for k, v in pm["inputs"][j] if k not in (b"\x00", b"\x01")]
        spk = Model.spk(model.script(0, p["idx"]), kind)
        pm["inputs"][j] = [(b"\x00", p["raw"]), (b"\x01", p["amount"].to_bytes(8, "little") + txser.varstr(spk))] + kvs
    elif t == "in_witness_utxo_contradicts_prev_tx":
        # the input carries BOTH the previous transaction and a witness UTXO (BIP174 allows that for segwit
        # inputs); the witness UTXO claims another amount (or script) than the output it refers to
        if kind != "p2wsh":
            raise Discard("witness UTXOs belong to segwit inputs")
        j = w % len(pm["inputs"])
        p = info["prevs"][j]
        kvs = [(k, v) for k, v in pm["inputs"][j] if k not in (b"\x00", b"\x01")]
        spk = Model.spk(model.script(0, p["idx"]), kind)
        if d % 3:
            lie = (p["amount"] + d).to_bytes(8, "little") + txser.varstr(spk)
            ctx.label("witness_utxo_amount_lies")
        else:
            lie = p["amount"].to_bytes(8, "little") + txser.varstr(Model.spk(att_script, kind))
            ctx.label("witness_utxo_script_lies")
        pm["inputs"][j] = [(b"\x00", p["raw"]), (b"\x01", lie)] + kvs
    else:
        raise AssertionError(t)
    if case.get("strip_global_xpubs"):
        pm["global"] = [(k, v) for k, v in pm["global"] if k[:1] != b"\x01"]
        ctx.label("without_global_xpubs")
    edited = psbtmap.serialize(pm)
    assert edited != blob or t == "both_utxo_forms_consistent"
    st_, desc = describe(edited, hmap)
    if st_ == "exc":
        ctx.label("rejected")
        ctx.label(f"{t}:rejected")
        return
    ctx.label("summarised")
    ctx.label(f"{t}:summarised")
    if input_tamper:
        require(False, f"tamper/{t}:summarised_instead_of_rejected", f"kind={kind} m={m} n={n}")
    pm2 = psbtmap.parse(edited)
    check_summary(desc, pm2, model, f"tamper/{t}")
    if t == "second_change_output":
        require(sum(1 for o in desc["outputs_desc"] if o["is_change"]) <= 1, "tamper/two_change_outputs_labelled")
    if t in ("out_amount_changed", "spend_script_kind", "both_utxo_forms_consistent", "p2wsh_prev_tx_only_honest"):
        return  # an honest summary of the altered amounts / of the unusual payment is fine
    if ci is not None and t not in ("second_change_output", "spend_gets_change_metadata"):
        # the tampered output must not be presented as change
        require(not desc["outputs_desc"][ci]["is_change"] or model.truth_is_change(pm2, ci, m),
                f"tamper/{t}:tampered_output_labelled_change")


SUBS = [
    Sub("honest_summary", check_honest, strategy=lambda tier: wallet_cases(),
        budget={"quick": 120, "thorough": 5000},
        required=["kind:p2sh", "kind:p2wsh", "with_change", "sweep", "m=2,n=3", "m=1,n=1",
                  "duplicate_spend_address"],
        nontrivial_rule="wallet with n >= 2 or a change output"),
    Sub("tampering", check_tamper, strategy=lambda tier: tamper_cases(),
        budget={"quick": 520, "thorough": 15000}, min_per_shard=4,
        required=["tamper:" + t for t in TAMPER_OUT + TAMPER_IN] + ["rejected", "spend_kind:op_return_value"],
        nontrivial_rule="every case"),
]
