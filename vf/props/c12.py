"""C12 taproot output keys commit to the script tree; every leaf is spendable; tampering is caught."""
from io import BytesIO

from hypothesis import strategies as st

from buidl.helper import encode_varstr
from buidl.pecc import PrivateKey, S256Point
from buidl.script import Script
from buidl.taproot import ControlBlock, TapBranch, TapLeaf

from vf import gen
from vf.core import Discard, Sub, attempt, must, require
from vf.ref import ec, taproot as rt, txser

RULE = (
    "tree_commitment: internal key (both parities) x random binary tree shapes with 1..8 distinct "
    "leaves x leaf versions; root, tweak, output key and parity, tweaked secret, every control block "
    "and its parse round trip equal the independent BIP341 model; swapping siblings keeps the root. "
    "tamper: EVERY byte position of a control block and of the leaf script is altered; buidl's parse and "
    "Merkle folding must agree with the reference on the altered bytes and the commitment must fail. "
    "Non-trivial: tree with >= 2 leaves."
)
ASSUMPTIONS = [
    "leaf scripts are distinct within a tree (TapBranch.control_block looks leaves up by equality)",
    "for every altered byte position the hash-level result of buidl (parsed fields, Merkle root) is "
    "compared with the reference and the reference evaluates the EC commitment; buidl's own EC "
    "commitment check (70 ms) is run on a generated sample of positions",
]


def selftest():
    rt.selftest()


def toks(s):
    return [t if isinstance(t, int) else bytes(t) for t in s]


LEAF_VERSIONS = [0xC0, 0xC0, 0xC0, 0xC2, 0x66, 0x7E, 0x80, 0xFE, 0x00, 0x02]


def leaf_scripts():
    ops = st.sampled_from([0x51, 0xAC, 0xAD, 0xBA, 0x87, 0x75, 0x00, 0x63, 0x68, 0xB1, 0xB2])
    push = st.one_of(st.binary(min_size=32, max_size=32), st.binary(min_size=1, max_size=40),
                     st.sampled_from([75, 76, 255, 256]).flatmap(lambda n: st.binary(min_size=n, max_size=n)))
    return st.lists(st.one_of(ops, push), min_size=0, max_size=4)


def shapes():
    leaf = st.tuples(st.sampled_from(LEAF_VERSIONS), leaf_scripts())
    return st.recursive(leaf, lambda c: st.lists(c, min_size=2, max_size=2), max_leaves=8)


def label_leaves(tree, counter):
    """make every leaf script distinct: append a push of its index"""
    if isinstance(tree, (tuple, list)) and len(tree) == 2 and isinstance(tree[0], int):
        i = counter[0]
        counter[0] += 1
        return (tree[0], toks(tree[1]) + [bytes([0xF0, i])])
    return [label_leaves(tree[0], counter), label_leaves(tree[1], counter)]


def to_buidl(tree):
    if isinstance(tree, tuple):
        return TapLeaf(Script(list(tree[1])), tree[0])
    return TapBranch(to_buidl(tree[0]), to_buidl(tree[1]))


def to_ref(tree):
    if isinstance(tree, tuple):
        return (tree[0], txser.script_bytes(tree[1]))
    return [to_ref(tree[0]), to_ref(tree[1])]


def swapped(tree, bits):
    if isinstance(tree, tuple):
        return tree
    a, b = swapped(tree[0], bits), swapped(tree[1], bits)
    flip = bits.pop(0) if bits else False
    return [b, a] if flip else [a, b]


def commit_cases(tier):
    return st.fixed_dictionaries({
        "secret": gen.secrets(), "tree": st.one_of(st.none(), shapes(), shapes()),
        "swaps": st.lists(st.booleans(), min_size=8, max_size=8),
        "leaf_sample": st.lists(st.integers(0, 7), min_size=2, max_size=2),
    })


def pt(p):
    return S256Point(p[0], p[1])


def check_commit(case, ctx):
    secret = case["secret"]
    P = ec.mul(secret)
    ctx.label(f"internal_parity={P[1] & 1}")
    internal = pt(P)
    priv = PrivateKey.__new__(PrivateKey)
    priv.secret, priv.point, priv.network, priv.compressed = secret, internal, "mainnet", True
    if case["tree"] is None:
        ctx.label("no_tree")
        par, Q = rt.tweak_pubkey(P, b"")
        ext = must(internal.tweaked_key, "commit/tweaked_key")
        require((ext.x.num, ext.y.num) == Q and ext.parity == par, "commit/keypath_output_key")
        tp = must(priv.tweaked_key, "commit/priv_tweaked_key")
        require(tp.secret == rt.tweak_seckey(secret, b""), "commit/tweaked_secret")
        require((tp.point.x.num, tp.point.y.num) == Q, "commit/tweaked_secret_is_not_dlog_of_output_key")
        spk = internal.p2tr_script()
        require(spk.raw_serialize() == b"\x51\x20" + ec.xonly(Q), "commit/p2tr_script")
        return
    tree = label_leaves(case["tree"], [0])
    rtree = to_ref(tree)
    root, leaves = rt.tree_info(rtree)
    ctx.label(f"leaves={len(leaves)}")
    ctx.nontrivial(len(leaves) >= 2)
    btree = to_buidl(tree)
    got_root = must(btree.hash, "commit/hash")
    require(got_root == root, "commit/merkle_root", f"{got_root.hex()} vs {root.hex()}")
    # sibling order must not matter
    sw = swapped(tree, list(case["swaps"]))
    if sw != tree:
        ctx.label("swapped_siblings")
    require(to_buidl(sw).hash() == root, "commit/sibling_order_changes_root")
    par, Q = rt.tweak_pubkey(P, root)
    ctx.label(f"output_parity={par}")
    ext = must(btree.external_pubkey, "commit/external_pubkey", internal)
    require((ext.x.num, ext.y.num) == Q and ext.parity == par, "commit/output_key",
            f"got={ext.sec().hex()} want={ec.sec(Q).hex()}")
    tp = must(priv.tweaked_key, "commit/priv_tweaked_key", root)
    require(tp.secret == rt.tweak_seckey(secret, root), "commit/tweaked_secret")
    require((tp.point.x.num, tp.point.y.num) == Q, "commit/tweaked_secret_is_not_dlog_of_output_key")
    require(internal.p2tr_script(root).raw_serialize() == b"\x51\x20" + ec.xonly(Q), "commit/p2tr_script")
    # the same commitment through the explicit-tweak entry points
    tw = must(internal.tweak, "commit/tweak", root)
    require(tw == ec.tagged_hash("TapTweak", ec.xonly(P) + root), "commit/tweak_value")
    e3 = must(internal.tweaked_key, "commit/tweaked_key_explicit_tweak", root, tw)
    require((e3.x.num, e3.y.num) == Q, "commit/output_key_with_explicit_tweak",
            f"internal parity {P[1] & 1}")
    require(internal.p2tr_script(tweak=tw).raw_serialize() == b"\x51\x20" + ec.xonly(Q),
            "commit/p2tr_script_with_explicit_tweak")
    require(internal.p2tr_address(tweak=tw) == internal.p2tr_address(root), "commit/p2tr_address_with_explicit_tweak")
    bleaves = btree.leaves()
    require(len(bleaves) == len(leaves), "commit/leaf_count")
    sample = {i % len(leaves) for i in case["leaf_sample"]}
    for i, ((ver, script), _path) in enumerate(leaves):
        bl = bleaves[i]
        require(bl.tapleaf_version == ver and bl.tap_script.raw_serialize() == script, "commit/leaf_order")
        require(bl.hash() == rt.leaf_hash(script, ver), "commit/leaf_hash")
        if i not in sample:
            continue
        cb = must(btree.control_block, "commit/control_block", internal, bl)
        require(cb is not None, "commit/control_block_missing")
        want = rt.control_block(P, rtree, i)
        ser = cb.serialize()
        require(ser == want, "commit/control_block_bytes", f"leaf {i}: {ser.hex()} vs {want.hex()}")
        back = must(ControlBlock.parse, "commit/control_block_parse", ser)
        require(back.serialize() == ser and back == cb, "commit/control_block_roundtrip")
        require(back.tapleaf_version == ver and back.parity == par
                and back.internal_pubkey.xonly() == ec.xonly(P)
                and b"".join(back.hashes) == want[33:], "commit/control_block_fields")
        require(back.merkle_root(bl.tap_script) == root, "commit/control_block_root")
        e2 = must(back.external_pubkey, "commit/cb_external_pubkey", bl.tap_script)
        require(e2.xonly() == ec.xonly(Q) and e2.parity == back.parity,
                "commit/leaf_does_not_reproduce_output_key")
        require(rt.verify_control_block(ser, script, ec.xonly(Q)), "commit/reference_rejects_control_block")
        ctx.label("leaf_checked")
        ctx.label(f"path_len={len(want[33:]) // 32}")


# ------------------------------------------------------------------ object reuse

TREE_OPS = ["hash", "leaves", "control_block", "external_pubkey", "path_hashes", "leaf_hash", "p2tr_script"]


def reuse_cases(tier):
    op = st.tuples(st.sampled_from(TREE_OPS), st.integers(0, 7), st.integers(0, 1))
    return st.fixed_dictionaries({
        "secrets": st.tuples(gen.secrets(), gen.secrets()),
        "tree": shapes(), "ops": st.lists(op, min_size=3, max_size=7),
    })


def check_reuse(case, ctx):
    """ONE tree object and TWO internal keys answer a sequence of queries in generated order"""
    Ps = [ec.mul(s) for s in case["secrets"]]
    internals = [pt(p) for p in Ps]
    tree = label_leaves(case["tree"], [0])
    rtree = to_ref(tree)
    root, leaves = rt.tree_info(rtree)
    btree = to_buidl(tree)
    ctx.nontrivial(len(leaves) >= 2)
    for what, i, k in case["ops"]:
        ctx.label("op:" + what)
        li = i % len(leaves)
        (ver, script), path = leaves[li]
        if what == "hash":
            require(btree.hash() == root, "reuse/hash")
        elif what == "leaves":
            bl = btree.leaves()
            require([(x.tapleaf_version, x.tap_script.raw_serialize()) for x in bl]
                    == [lf for lf, _ in leaves], "reuse/leaves")
        elif what == "leaf_hash":
            require(btree.leaves()[li].hash() == rt.leaf_hash(script, ver), "reuse/leaf_hash")
        elif what == "path_hashes":
            if len(leaves) > 1:
                got = btree.path_hashes(btree.leaves()[li])
                require(b"".join(got) == path, "reuse/path_hashes")
        elif what == "control_block":
            cb = btree.control_block(internals[k], btree.leaves()[li])
            require(cb is not None and cb.serialize() == rt.control_block(Ps[k], rtree, li),
                    "reuse/control_block", f"leaf {li} internal {k}")
        elif what == "external_pubkey":
            par, Q = rt.tweak_pubkey(Ps[k], root)
            e = btree.external_pubkey(internals[k])
            require((e.x.num, e.y.num) == Q and e.parity == par, "reuse/external_pubkey")
        elif what == "p2tr_script":
            _, Q = rt.tweak_pubkey(Ps[k], root)
            require(internals[k].p2tr_script(btree.hash()).raw_serialize() == b"\x51\x20" + ec.xonly(Q),
                    "reuse/p2tr_script")


# ------------------------------------------------------- node objects shared by trees

SHARED_MODES = ["reshape", "reshape", "embed_left", "embed_right", "subset", "combine"]


def shared_cases(tier):
    step = st.tuples(st.integers(0, 50), st.integers(0, 50), st.booleans())
    q = st.tuples(st.sampled_from(["A", "B"]), st.integers(0, 7),
                  st.sampled_from(["control_block", "control_block", "path_hashes", "hash"]))
    return st.fixed_dictionaries({
        "secret": gen.secrets(),
        "leaves": st.lists(st.tuples(st.sampled_from(LEAF_VERSIONS), leaf_scripts()), min_size=2, max_size=6),
        "plan_a": st.lists(step, min_size=5, max_size=5),
        "plan_b": st.lists(step, min_size=5, max_size=5),
        "mode": st.sampled_from(SHARED_MODES),
        "queries": st.lists(q, min_size=3, max_size=8),
        # two leaves commit the SAME script under different leaf versions (they are different leaves)
        "twin": st.sampled_from([False, False, True]),
    })


def _merge(nodes, plan):
    """nodes: [(buidl node, reference node, [leaf ids left to right])]; merges pairs as the plan says"""
    nodes = list(nodes)
    for a, b, flip in plan:
        if len(nodes) == 1:
            break
        x = nodes.pop(a % len(nodes))
        y = nodes.pop(b % len(nodes))
        if flip:
            x, y = y, x
        nodes.append((TapBranch(x[0], y[0]), [x[1], y[1]], x[2] + y[2]))
    return nodes[0]


def _balanced(nodes):
    if len(nodes) == 1:
        return nodes[0][1], nodes[0][2]
    h = len(nodes) // 2
    l, r = _balanced(nodes[:h]), _balanced(nodes[h:])
    return [l[0], r[0]], l[1] + r[1]


def check_shared(case, ctx):
    """The SAME TapLeaf / TapBranch objects are built into two trees (a different shape, a larger tree that
    embeds the first, a subset, TapBranch.combine); every tree keeps committing to exactly its own leaves:
    control blocks, Merkle paths and roots equal the reference for THAT tree, whichever tree was built or
    queried last."""
    P = ec.mul(case["secret"])
    internal = pt(P)
    specs = [(v, toks(s) + [bytes([0xF0, i])]) for i, (v, s) in enumerate(case["leaves"])]
    if case.get("twin"):
        twin_of = len(specs) - 1
        specs[twin_of] = (0xC2 if specs[0][0] == 0xC0 else 0xC0, list(specs[0][1]))
        ctx.label("same_script_under_two_leaf_versions")
    objs = [TapLeaf(Script(list(s)), v) for v, s in specs]
    base = [(objs[i], (v, txser.script_bytes(s)), [i]) for i, (v, s) in enumerate(specs)]
    mode = case["mode"]
    if mode == "subset" and len(base) < 3:
        mode = "reshape"
    ctx.label("mode:" + mode)
    ctx.nontrivial()
    A = _merge(base, case["plan_a"])
    if mode == "reshape":
        B = _merge(base, case["plan_b"])
    elif mode == "subset":
        B = _merge(base[:-1], case["plan_b"])
    elif mode == "combine":
        order = sorted(range(len(base)), key=lambda i: (case["plan_b"][i % 5][0] + 7 * i) % 11)
        nodes = [base[i] for i in order]
        ref, ids = _balanced(nodes)
        B = (TapBranch.combine([n[0] for n in nodes]), ref, ids)
    else:
        extra_spec = (0xC0, [0x51, bytes([0xF1, 0x77])])
        extra = (TapLeaf(Script(list(extra_spec[1])), 0xC0), (0xC0, txser.script_bytes(extra_spec[1])), [len(objs)])
        objs.append(extra[0])
        if mode == "embed_left":
            B = (TapBranch(A[0], extra[0]), [A[1], extra[1]], A[2] + extra[2])
        else:
            B = (TapBranch(extra[0], A[0]), [extra[1], A[1]], extra[2] + A[2])
    trees = {"A": A, "B": B}
    for which, i, what in case["queries"]:
        bt, ref, ids = trees[which]
        root, leaves = rt.tree_info(ref)
        li = i % len(ids)
        leaf_obj = objs[ids[li]]
        ctx.label(f"query:{which}:{what}")
        if what == "hash":
            require(bt.hash() == root, f"shared/{mode}:hash:{which}")
        elif what == "path_hashes":
            got = bt.path_hashes(leaf_obj)
            require(got is not None and b"".join(got) == leaves[li][1], f"shared/{mode}:path_hashes:{which}",
                    f"leaf {li} of tree {which}")
        else:
            cb = bt.control_block(internal, leaf_obj)
            require(cb is not None and cb.serialize() == rt.control_block(P, ref, li),
                    f"shared/{mode}:control_block:{which}", f"leaf {li} of tree {which}")


# ----------------------------------------------------------------------- tamper


def tamper_cases(tier):
    return st.fixed_dictionaries({
        "secret": gen.secrets(), "tree": shapes(), "leaf": st.integers(0, 7),
        "xors": st.lists(st.integers(1, 255), min_size=200, max_size=200),
        "ec_positions": st.lists(st.integers(0, 400), min_size=3, max_size=3),
        "all_xors_pos": st.integers(0, 400),
    })


def check_tamper(case, ctx):
    P = ec.mul(case["secret"])
    tree = label_leaves(case["tree"], [0])
    rtree = to_ref(tree)
    root, leaves = rt.tree_info(rtree)
    i = case["leaf"] % len(leaves)
    (ver, script), _ = leaves[i]
    par, Q = rt.tweak_pubkey(P, root)
    program = ec.xonly(Q)
    cb = rt.control_block(P, rtree, i)
    assert rt.verify_control_block(cb, script, program)
    ctx.nontrivial(len(leaves) >= 2)
    ctx.label(f"path_len={(len(cb) - 33) // 32}")
    tap_script = Script.parse(BytesIO(encode_varstr(script)))
    xors = case["xors"]
    ec_pos = {p % len(cb) for p in case["ec_positions"]} | {0}

    def buidl_accepts(cb_bytes, script_obj):
        def run():
            c = ControlBlock.parse(cb_bytes)
            e = c.external_pubkey(script_obj)
            return e.xonly() == program and e.parity == c.parity
        st_, r = attempt(run)
        return st_ == "ok" and bool(r)

    def one(pos, x):
        t = bytearray(cb)
        t[pos] ^= x
        t = bytes(t)
        want_accept = rt.verify_control_block(t, script, program)
        require(not want_accept or t == cb, "tamper/reference_accepts_altered_control_block")
        st_, parsed = attempt(ControlBlock.parse, t)
        if st_ == "ok":
            # buidl's view of the altered bytes must be the reference's view
            require(parsed.tapleaf_version == (t[0] & 0xFE) and parsed.parity == (t[0] & 1),
                    "tamper/parse_first_byte")
            ip = ec.lift_x(int.from_bytes(t[1:33], "big"))
            if ip is None:
                require(parsed.internal_pubkey.x is None, "tamper/parse_accepts_invalid_internal_key",
                        t[1:33].hex())
            else:
                require(parsed.internal_pubkey.xonly() == t[1:33], "tamper/parse_internal_key")
            require(b"".join(parsed.hashes) == t[33:], "tamper/parse_hashes")
            k = rt.leaf_hash(script, t[0] & 0xFE)
            for j in range((len(t) - 33) // 32):
                k = rt.branch_hash(k, t[33 + 32 * j: 65 + 32 * j])
            st2, got_root = attempt(parsed.merkle_root, tap_script)
            require(st2 == "exc" or got_root == k, "tamper/merkle_root_of_altered_block")
            if pos >= 1 or (x & 0xFE):
                changed = (st2 == "exc" or got_root != root or pos in range(1, 33))
                require(changed, "tamper/altered_block_reproduces_root")
        ctx.label("cb_positions")
        return t

    for pos in range(len(cb)):
        t = one(pos, xors[pos % len(xors)])
        if pos in ec_pos:
            require(not buidl_accepts(t, tap_script), "tamper/altered_control_block_accepted",
                    f"pos={pos} cb={t.hex()}")
            ctx.label("cb_positions_with_ec_check")
    # one position with all 255 alterations
    p_all = case["all_xors_pos"] % len(cb)
    for x in range(1, 256):
        one(p_all, x)
    for bit in range(8):
        t = bytearray(cb)
        t[0] ^= 1 << bit
        if bit < 2:
            require(not buidl_accepts(bytes(t), tap_script), "tamper/first_byte_bit_flip_accepted",
                    f"bit={bit}")
    # leaf script: every byte position
    base = ControlBlock.parse(cb)
    for pos in range(len(script)):
        s2 = bytearray(script)
        s2[pos] ^= xors[(pos + 7) % len(xors)]
        s2 = bytes(s2)

        def root_of():
            parsed = Script.parse(BytesIO(encode_varstr(s2)))
            return base.merkle_root(parsed)
        st_, r = attempt(root_of)
        require(st_ == "exc" or r != root, "tamper/altered_leaf_script_reproduces_root",
                f"pos={pos} script={script.hex()} altered={s2.hex()}")
        ctx.label("script_positions")


SUBS = [
    Sub("tree_commitment", check_commit, strategy=commit_cases,
        budget={"quick": 500, "thorough": 15000},
        required=["internal_parity=0", "internal_parity=1", "output_parity=0", "output_parity=1",
                  "no_tree", "leaves=1", "leaves=8", "swapped_siblings", "path_len=0", "path_len=3"],
        nontrivial_rule="tree with >= 2 leaves"),
    Sub("tree_object_reuse", check_reuse, strategy=reuse_cases, stateful=True,
        budget={"quick": 250, "thorough": 8000}, required=["op:" + o for o in TREE_OPS],
        nontrivial_rule="history on a tree with >= 2 leaves"),
    Sub("tamper", check_tamper, strategy=tamper_cases,
        budget={"quick": 400, "thorough": 10000},
        required=["cb_positions", "script_positions", "cb_positions_with_ec_check", "path_len=0",
                  "path_len=2"],
        nontrivial_rule="tree with >= 2 leaves (every byte position of the control block and leaf script is altered)"),
    Sub("shared_node_objects", check_shared, strategy=shared_cases, stateful=True,
        budget={"quick": 600, "thorough": 20000},
        required=["mode:" + m for m in set(SHARED_MODES)]
        + ["query:A:control_block", "query:B:control_block", "query:A:path_hashes",
           "same_script_under_two_leaf_versions"],
        nontrivial_rule="every case: two trees over the same node objects, queried in generated order"),
]
