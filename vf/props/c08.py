"""C08 BIP32 derivation, path composition, extended-key codec, xpub blinding."""
from hypothesis import strategies as st

from buidl.blinding import blind_xpub, combine_bip32_paths
from buidl.hd import HDPrivateKey, HDPublicKey

from vf.core import Discard, Sub, attempt, must, require
from vf.gen import rand_bytes as gen_rand
from vf.ref import bip32, ec

HARD = bip32.HARD
RULE = (
    "derive_differential: seed (16..64 bytes) x network x path (depth <= 8, index edges 0, 2^31-1, "
    "2^31, 2^32-1): every node compared with an independent BIP32 model, public/private consistency "
    "and hardened refusal at every node; path_composition: traverse vs fold of child, notation "
    "variants (' h H, m M) on private and public keys, traverse(p+q) = traverse(p).traverse(q); "
    "xkey_codec: all 20 SLIP-132 versions round trip, every single-character substitution decided by "
    "an independent Base58Check decoder; blinding: blind_xpub equals the key at the combined path. "
    "Non-trivial: path crossing the hardened boundary or depth >= 3."
)
ASSUMPTIONS = [
    "regions of measure 2^-128 (I_L >= n, child key 0) cannot be constructed and are not covered",
]

MAIN_PRV = ["0488ade4", "049d7878", "04b2430c", "0295b005", "02aa7a99"]
MAIN_PUB = ["0488b21e", "049d7cb2", "04b24746", "0295b43f", "02aa7ed3"]
TEST_PRV = ["04358394", "044a4e28", "045f18bc", "024285b5", "02575048"]
TEST_PUB = ["043587cf", "044a5262", "045f1cf6", "024289ef", "02575483"]
DEFAULT_PRV = {"mainnet": "0488ade4", "testnet": "04358394", "signet": "04358394", "regtest": "04358394"}
DEFAULT_PUB = {"mainnet": "0488b21e", "testnet": "043587cf", "signet": "043587cf", "regtest": "043587cf"}
NETWORKS = ["mainnet", "testnet", "signet", "regtest"]


def selftest():
    bip32.ensure_selftest()


def seeds():
    return st.one_of(gen_rand(16), gen_rand(32), gen_rand(64), st.binary(min_size=16, max_size=64),
                     st.sampled_from([16, 32, 64]).flatmap(lambda n: st.binary(min_size=n, max_size=n)))


def indexes():
    return st.one_of(
        st.sampled_from([0, 1, 2, HARD - 1, HARD, HARD + 1, 2**32 - 1, HARD + 44, HARD + 48]),
        st.integers(0, 2**32 - 1), st.integers(0, 50), st.integers(HARD, HARD + 50),
    )


def unhardened():
    return st.one_of(st.sampled_from([0, 1, HARD - 1, HARD - 2]), st.integers(0, HARD - 1),
                     st.integers(0, 100))


def comp(i, style):
    if i >= HARD:
        return f"{i - HARD}{style}"
    return str(i)


def path_str(idx, style="'", m="m"):
    return "/".join([m] + [comp(i, style) for i in idx])


def nontrivial_path(idx):
    kinds = {i >= HARD for i in idx}
    return len(idx) >= 3 or len(kinds) == 2


def same_priv(node, hd, bucket, network, versions=None):
    require(hd.private_key.secret == node.k, bucket + "/secret")
    require((hd.private_key.point.x.num, hd.private_key.point.y.num) == node.K, bucket + "/point")
    require(hd.chain_code == node.c, bucket + "/chain_code")
    require(hd.depth == node.depth, bucket + "/depth")
    require(hd.child_number == node.num, bucket + "/child_number")
    require(hd.parent_fingerprint == node.fpr, bucket + "/parent_fingerprint")
    require(hd.fingerprint() == node.fingerprint(), bucket + "/fingerprint")
    vprv, vpub = versions or (bytes.fromhex(DEFAULT_PRV[network]), bytes.fromhex(DEFAULT_PUB[network]))
    require(hd.xprv() == node.xprv(vprv), bucket + "/xprv", f"{hd.xprv()[:8]}.. version {vprv.hex()}")
    require(hd.xpub() == node.xpub(vpub) == hd.pub.xpub(), bucket + "/xpub",
            f"{hd.xpub()[:8]}.. / {hd.pub.xpub()[:8]}.. version {vpub.hex()}")


def same_pub(node, hp, bucket, network, versions=None):
    require((hp.point.x.num, hp.point.y.num) == node.K, bucket + "/point")
    require(hp.chain_code == node.c and hp.depth == node.depth and hp.child_number == node.num
            and hp.parent_fingerprint == node.fpr, bucket + "/fields")
    vpub = versions[1] if versions else bytes.fromhex(DEFAULT_PUB[network])
    require(hp.xpub() == node.xpub(vpub), bucket + "/xpub", f"{hp.xpub()[:8]}.. version {vpub.hex()}")


def derive_cases(tier):
    return st.fixed_dictionaries({
        "seed": seeds(), "network": st.sampled_from(NETWORKS),
        "vi": st.one_of(st.none(), st.integers(0, 4)),  # SLIP-132 version pair given to from_seed
        "path": st.lists(indexes(), min_size=1, max_size=8),
    })


def check_derive(case, ctx):
    seed, net, idx = case["seed"], case["network"], case["path"]
    ctx.nontrivial(nontrivial_path(idx))
    try:
        node = bip32.Node.master(seed)
    except ValueError:
        raise Discard("invalid master")
    versions = None
    if case.get("vi") is not None:
        prvs, pubs = (MAIN_PRV, MAIN_PUB) if net == "mainnet" else (TEST_PRV, TEST_PUB)
        versions = (bytes.fromhex(prvs[case["vi"]]), bytes.fromhex(pubs[case["vi"]]))
        ctx.label("slip132_versions_from_seed")
        hd = must(HDPrivateKey.from_seed, "derive/from_seed", seed, network=net, priv_version=versions[0],
                  pub_version=versions[1])
    else:
        hd = must(HDPrivateKey.from_seed, "derive/from_seed", seed, network=net)
    same_priv(node, hd, "derive/master", net, versions)
    for d, i in enumerate(idx):
        child_node = node.ckd_priv(i)
        child = must(hd.child, "derive/child", i)
        same_priv(child_node, child, "derive/node", net, versions)
        if i < HARD:
            ctx.label("unhardened_step")
            pub_child = must(hd.pub.child, "derive/pub_child", i)
            same_pub(node.neuter().ckd_pub(i), pub_child, "derive/public_derivation", net, versions)
            require(pub_child.xpub() == child.pub.xpub() == child.xpub(), "derive/pub_priv_mismatch")
        else:
            ctx.label("hardened_step")
            st_, r = attempt(hd.pub.child, i)
            require(st_ == "exc", "derive/hardened_from_public_not_refused", f"index {i}")
            st_, r = attempt(hd.pub.traverse, "m/" + comp(i, "'"))
            require(st_ == "exc", "derive/hardened_traverse_from_public_not_refused")
        if i in (HARD - 1, HARD, 2**32 - 1, 0):
            ctx.label(f"index_edge:{i}")
        node, hd = child_node, child
    ctx.label(f"depth={len(idx)}")


# ---------------------------------------------------------------- composition


def compose_cases(tier):
    return st.fixed_dictionaries({
        "seed": seeds(), "network": st.sampled_from(NETWORKS),
        "p": st.lists(indexes(), min_size=0, max_size=4),
        "q": st.lists(unhardened(), min_size=1, max_size=3),
        "style": st.sampled_from(["'", "h", "H"]), "m": st.sampled_from(["m", "M"]),
        "style2": st.sampled_from(["'", "h", "H"]),
    })


def check_compose(case, ctx):
    seed, net = case["seed"], case["network"]
    p, q = case["p"], case["q"]
    ctx.nontrivial(nontrivial_path(p + q))
    ctx.label(f"notation:{case['m']}{case['style']}")
    try:
        root = bip32.Node.master(seed)
    except ValueError:
        raise Discard("invalid master")
    hd = HDPrivateKey.from_seed(seed, network=net)
    want_p = root.derive(p)
    want_pq = want_p.derive(q)
    # 1. traverse == fold of child, whatever the notation
    s1 = path_str(p + q, case["style"], case["m"])
    s2 = path_str(p + q, case["style2"], "m")
    a = must(hd.traverse, f"compose/private_traverse_refuses:{case['m']}{case['style']}", s1)
    same_priv(want_pq, a, "compose/traverse", net)
    b = must(hd.traverse, "compose/private_traverse", s2)
    require(a.xprv() == b.xprv(), "compose/notation_changes_key")
    # 2. traverse(p+q) == traverse(p).traverse(q)
    mid = must(hd.traverse, "compose/private_traverse", path_str(p, case["style"], "m"))
    same_priv(want_p, mid, "compose/prefix", net)
    c = must(mid.traverse, "compose/private_traverse", path_str(q, case["style"], case["m"]))
    require(c.xprv() == a.xprv(), "compose/split_path_differs")
    # 3. the public key at p follows the unhardened tail q publicly, in every notation
    qs = path_str(q, case["style"], case["m"])
    pub = must(mid.pub.traverse, f"compose/public_traverse_refuses:{case['m']}", qs)
    same_pub(want_pq.neuter(), pub, "compose/public_traverse", net)
    pub2 = must(mid.pub.traverse, "compose/public_traverse", path_str(q, "'", "m"))
    require(pub.xpub() == pub2.xpub() == a.xpub(), "compose/public_private_mismatch")
    # 4. empty path
    require(must(hd.traverse, "compose/m", case["m"]).xprv() == hd.xprv(), "compose/identity")
    require(must(hd.pub.traverse, f"compose/public_identity_refuses:{case['m']}", case["m"]).xpub()
            == hd.xpub(), "compose/public_identity")
    # ... also on keys that are not the root (the empty path is the split point p | "")
    for key, want, name in ((mid, want_p, "prefix"), (a, want_pq, "leaf")):
        same_again = must(key.traverse, "compose/m_on_derived_key", case["m"])
        same_priv(want, same_again, f"compose/identity_on_derived_key:{name}", net)
        require(same_again.xprv() == key.xprv() and same_again.xpub() == key.xpub(),
                f"compose/identity_on_derived_key:{name}")
        pub_again = must(key.pub.traverse, "compose/m_on_derived_public_key", case["m"])
        same_pub(want.neuter(), pub_again, f"compose/public_identity_on_derived_key:{name}", net)
        # and what is derived from that result continues at the right depth
        kid = must(same_again.child, "compose/child_after_identity", q[0])
        same_priv(want.derive([q[0]]), kid, f"compose/child_after_identity:{name}", net)
    if p:
        ctx.label("identity_on_non_root_key")


# --------------------------------------------------------------- object reuse

REUSE_OPS = ["child", "pub_child", "traverse", "pub_traverse", "xprv", "xpub", "pub_xpub", "xprv_v", "xpub_v",
             "fingerprint", "pub_raw", "parse_back"]


def reuse_cases(tier):
    op = st.tuples(st.sampled_from(REUSE_OPS), st.integers(0, 3), st.integers(0, 4))
    return st.fixed_dictionaries({
        "seed": seeds(), "testnet": st.booleans(),
        "base": st.lists(indexes(), max_size=2),
        "kids": st.tuples(unhardened(), unhardened(), indexes(), indexes()),
        "ops": st.lists(op, min_size=3, max_size=8),
    })


def check_reuse(case, ctx):
    """one HDPrivateKey object (and its .pub) answers a whole sequence of queries"""
    net = "testnet" if case["testnet"] else "mainnet"
    try:
        node = bip32.Node.master(case["seed"]).derive(case["base"])
    except ValueError:
        raise Discard("invalid key")
    prvs, pubs = (TEST_PRV, TEST_PUB) if case["testnet"] else (MAIN_PRV, MAIN_PUB)
    hd = HDPrivateKey.from_seed(case["seed"], network=net)
    for i in case["base"]:
        hd = hd.child(i)
    ctx.nontrivial()
    kids = case["kids"]
    seen = set()
    for what, a, b in case["ops"]:
        ctx.label("op:" + what)
        if what in seen:
            ctx.label("repeated_query")
        seen.add(what)
        i = kids[a]
        vprv, vpub = bytes.fromhex(prvs[b]), bytes.fromhex(pubs[b])
        if what == "child":
            same_priv(node.ckd_priv(i), must(hd.child, "reuse/child", i), "reuse/child", net)
        elif what == "pub_child":
            if i < HARD:
                same_pub(node.neuter().ckd_pub(i), must(hd.pub.child, "reuse/pub_child", i), "reuse/pub_child", net)
            else:
                st_, _ = attempt(hd.pub.child, i)
                require(st_ == "exc", "reuse/hardened_from_public_not_refused")
        elif what == "traverse":
            p = [kids[a], kids[(a + 1) % 4]]
            same_priv(node.derive(p), must(hd.traverse, "reuse/traverse", path_str(p, "h")), "reuse/traverse", net)
        elif what == "pub_traverse":
            p = [kids[a % 2], kids[(a + 1) % 2]]
            same_pub(node.neuter().derive(p), must(hd.pub.traverse, "reuse/pub_traverse", path_str(p)),
                     "reuse/pub_traverse", net)
        elif what == "xprv":
            require(hd.xprv() == node.xprv(bytes.fromhex(DEFAULT_PRV[net])), "reuse/xprv")
        elif what == "xpub":
            require(hd.xpub() == node.xpub(bytes.fromhex(DEFAULT_PUB[net])), "reuse/xpub")
        elif what == "pub_xpub":
            require(hd.pub.xpub() == node.xpub(bytes.fromhex(DEFAULT_PUB[net])), "reuse/pub_xpub")
        elif what == "xprv_v":
            require(hd.xprv(version=vprv) == node.xprv(vprv), "reuse/xprv_version")
        elif what == "xpub_v":
            require(hd.xpub(version=vpub) == node.xpub(vpub) == hd.pub.xpub(version=vpub), "reuse/xpub_version")
        elif what == "fingerprint":
            require(hd.fingerprint() == node.fingerprint() == hd.pub.fingerprint(), "reuse/fingerprint")
        elif what == "pub_raw":
            require(hd.pub.raw_serialize() == node.raw_pub(bytes.fromhex(DEFAULT_PUB[net])), "reuse/pub_raw_serialize")
        elif what == "parse_back":
            back = must(HDPrivateKey.parse, "reuse/parse", hd.xprv())
            require(back.xprv() == hd.xprv() and back.xpub() == hd.xpub(), "reuse/parse_back")


# ---------------------------------------------------------------------- codec


def codec_cases(tier):
    return st.fixed_dictionaries({
        "seed": seeds(), "path": st.lists(indexes(), max_size=3),
        "vi": st.integers(0, 4), "testnet": st.booleans(),
        "sub_pos": st.lists(st.integers(0, 110), min_size=6, max_size=6),
        "sub_chr": st.lists(st.integers(0, 57), min_size=6, max_size=6),
    })


def check_codec(case, ctx):
    try:
        node = bip32.Node.master(case["seed"]).derive(case["path"])
    except ValueError:
        raise Discard("invalid key")
    ctx.nontrivial()
    prvs, pubs = (TEST_PRV, TEST_PUB) if case["testnet"] else (MAIN_PRV, MAIN_PUB)
    vprv, vpub = bytes.fromhex(prvs[case["vi"]]), bytes.fromhex(pubs[case["vi"]])
    ctx.label("version:" + prvs[case["vi"]])
    ctx.label("version:" + pubs[case["vi"]])
    xprv, xpub = node.xprv(vprv), node.xpub(vpub)
    hd = must(HDPrivateKey.parse, "codec/parse_xprv", xprv)
    require(hd.xprv() == xprv, "codec/xprv_roundtrip", f"{xprv} -> {hd.xprv()}")
    require(hd.raw_serialize(hd.priv_version) == node.raw_prv(vprv), "codec/raw_prv")
    require(hd.private_key.secret == node.k and hd.chain_code == node.c and hd.depth == node.depth
            and hd.child_number == node.num and hd.parent_fingerprint == node.fpr, "codec/xprv_fields")
    require(hd.xprv(version=vprv) == xprv and hd.xpub(version=vpub) == xpub, "codec/explicit_version")
    hp = must(HDPublicKey.parse, "codec/parse_xpub", xpub)
    require(hp.xpub() == xpub, "codec/xpub_roundtrip", f"{xpub} -> {hp.xpub()}")
    require((hp.point.x.num, hp.point.y.num) == node.K and hp.chain_code == node.c
            and hp.depth == node.depth and hp.child_number == node.num
            and hp.parent_fingerprint == node.fpr, "codec/xpub_fields")
    want_net = "testnet" if case["testnet"] else "mainnet"
    require(hd.network == want_net and hp.network == want_net, "codec/network")
    # depth, parent fingerprint and child number of a non-master key are plain data for the codec: any depth
    # >= 1, any fingerprint (00000000 included: exports with a zeroed fingerprint exist) and any child number
    sp_, sc_ = case["sub_pos"], case["sub_chr"]
    depth2 = 1 + sp_[0] % 255
    fpr2 = [bytes(4), b"\x00\x00\x00\x01", node.fpr, bytes(c % 256 for c in sc_[:4])][sp_[1] % 4]
    num2 = [0, 1, 2**31 - 1, 2**31, 2**32 - 1, sp_[2]][sp_[3] % 6]
    head = bytes([depth2]) + fpr2 + num2.to_bytes(4, "big") + node.c
    if fpr2 == bytes(4):
        ctx.label("zero_parent_fingerprint_on_derived_key")
    for ver, keyb, parser, name in ((vprv, b"\x00" + node.k.to_bytes(32, "big"), HDPrivateKey.parse, "xprv"),
                                    (vpub, ec.sec(node.K), HDPublicKey.parse, "xpub")):
        text = bip32.b58check_encode(ver + head + keyb)
        obj = must(parser, f"codec/parse_{name}_with_free_header_fields", text)
        back = obj.xprv() if name == "xprv" else obj.xpub()
        require(back == text and obj.depth == depth2 and obj.parent_fingerprint == fpr2
                and obj.child_number == num2, f"codec/{name}_header_fields_roundtrip",
                f"depth={depth2} fpr={fpr2.hex()} num={num2}: {text} -> {back}")
    # single-character substitutions, decided by the independent Base58Check decoder
    for pos, ch in zip(case["sub_pos"], case["sub_chr"]):
        for s, parser in ((xprv, HDPrivateKey.parse), (xpub, HDPublicKey.parse)):
            pos_ = pos % len(s)
            new = bip32.B58[ch]
            if s[pos_] == new:
                continue
            t = s[:pos_] + new + s[pos_ + 1:]
            payload = bip32.b58check_decode(t)
            st_, r = attempt(parser, t)
            if payload is None or len(payload) != 78:
                ctx.label("substitution_rejected_by_reference")
                require(st_ == "exc", "codec/corrupted_xkey_accepted", t)
            else:  # a 2^-32 checksum collision: nothing to assert about acceptance
                ctx.label("checksum_collision")


# -------------------------------------------------------------------- blinding


def blind_cases(tier):
    return st.fixed_dictionaries({
        "seed": seeds(), "testnet": st.booleans(), "vi": st.integers(0, 4),
        "start": st.lists(indexes(), min_size=0, max_size=4),
        "secret": st.lists(unhardened(), min_size=1, max_size=4),
        "style": st.sampled_from(["'", "h", "H"]),
        "wrong_depth": st.sampled_from([0, 0, 0, 1, -1]),
    })


def check_blind(case, ctx):
    try:
        root = bip32.Node.master(case["seed"])
        start_node = root.derive(case["start"])
    except ValueError:
        raise Discard("invalid key")
    ctx.nontrivial(nontrivial_path(case["start"] + case["secret"]))
    pubs = TEST_PUB if case["testnet"] else MAIN_PUB
    vpub = bytes.fromhex(pubs[case["vi"]])
    starting_xpub = start_node.xpub(vpub)
    start_path = path_str(case["start"], case["style"])
    secret_path = path_str(case["secret"])
    if case["wrong_depth"]:
        ctx.label("depth_mismatch")
        if case["wrong_depth"] == 1:
            bad = start_path + "/0"
        elif case["start"]:
            bad = path_str(case["start"][:-1], case["style"])
        else:
            raise Discard("cannot shorten m")
        st_, r = attempt(blind_xpub, starting_xpub, bad, secret_path)
        require(st_ == "exc", "blind/depth_mismatch_not_refused", f"{bad} for depth {start_node.depth}")
        return
    ctx.label("honest")
    res = must(blind_xpub, "blind/raises", starting_xpub, start_path, secret_path)
    want = root.derive(case["start"] + case["secret"])
    require(res["blinded_child_xpub"] == want.xpub(vpub), "blind/wrong_child_xpub",
            f"start={start_path} secret={secret_path}")
    canonical = path_str(case["start"] + case["secret"], "h")
    require(res["blinded_full_path"] == canonical, "blind/wrong_full_path",
            f"{res['blinded_full_path']} vs {canonical}")
    require(combine_bip32_paths(start_path, secret_path) == canonical, "blind/combine_paths")
    # the key found by walking the returned full path from the root is the returned key
    require(bip32.parse_path(res["blinded_full_path"]) == case["start"] + case["secret"],
            "blind/full_path_components")


SUBS = [
    Sub("derive_differential", check_derive, strategy=derive_cases,
        budget={"quick": 400, "thorough": 15000},
        required=["hardened_step", "unhardened_step", f"index_edge:{HARD - 1}", f"index_edge:{HARD}",
                  f"index_edge:{2**32 - 1}", "index_edge:0", "depth=8", "slip132_versions_from_seed"],
        nontrivial_rule="path crossing the hardened boundary or depth >= 3"),
    Sub("path_composition", check_compose, strategy=compose_cases,
        budget={"quick": 260, "thorough": 10000},
        required=[f"notation:{m}{s}" for m in "mM" for s in "'hH"] + ["identity_on_non_root_key"],
        nontrivial_rule="path crossing the hardened boundary or depth >= 3"),
    Sub("object_reuse", check_reuse, strategy=reuse_cases, stateful=True,
        budget={"quick": 220, "thorough": 8000}, required=["op:" + o for o in REUSE_OPS] + ["repeated_query"],
        nontrivial_rule="every history (3..8 queries on one key object)"),
    Sub("xkey_codec", check_codec, strategy=codec_cases,
        budget={"quick": 500, "thorough": 20000},
        required=["version:" + v for v in MAIN_PRV + MAIN_PUB + TEST_PRV + TEST_PUB]
        + ["substitution_rejected_by_reference"]),
    Sub("blinding", check_blind, strategy=blind_cases,
        budget={"quick": 500, "thorough": 15000}, required=["honest", "depth_mismatch"],
        nontrivial_rule="combined path crossing the hardened boundary or depth >= 3"),
]
