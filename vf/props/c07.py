"""C07 script interpreter vs consensus semantics on the implemented opcode set."""
from hypothesis import strategies as st

from buidl.op import OP_CODE_FUNCTIONS, decode_num, encode_num
from buidl.script import Script
from buidl.tx import Tx, TxIn

from vf import txgen
from vf.core import Discard, Sub, attempt, require
from vf.ref import interp

RULE = (
    "single_opcode: every implemented non-signature opcode x generated stacks (depth 0..7) and "
    "alt-stacks; programs: grammar-generated programs of <= 40 operations (properly nested "
    "IF/NOTIF/ELSE/ENDIF to depth 4, at most one ELSE per IF) evaluated with a generated transaction "
    "context; number_codec: EXHAUSTIVE over all byte strings of length 0..2 (quick) / 0..3 (thorough) "
    "plus generated integers; timelocks: (locktime, sequence, version, operand) across the type and "
    "flag boundaries. Oracle: a reference interpreter written from Bitcoin Core's EvalScript. "
    "Non-trivial: program that executes >= 5 operations; every single-opcode / timelock case."
)
ASSUMPTIONS = [
    "cases in which the reference run meets a numeric operand longer than 4 bytes (5 for CLTV/CSV) are "
    "outside the stated domain: discarded and counted",
    "programs in which an executed data push leaves one of the stack/command shapes the evaluator treats "
    "by design as P2SH / witness program are discarded and counted",
    "conditionals are properly nested with at most one ELSE per IF (multi-ELSE is not asserted)",
]


def selftest():
    interp.selftest()


NUM_EDGES = [0, 1, -1, 2, 3, 5, 16, 17, 127, 128, -127, -128, 255, 256, -255, -256, 32767, 32768,
             -32768, 65535, 65536, 2**23 - 1, 2**23, 2**31 - 1, -(2**31 - 1), 2**31 - 2]
ODD_ELEMS = [b"", b"\x00", b"\x80", b"\x00\x00", b"\x00\x80", b"\x01\x00", b"\x01\x80", b"\x00\x00\x00\x80",
             b"\x80\x00", b"\x00\x01", b"\xff", b"\xff\xff\xff\xff", b"\x01\x00\x00\x00", b"\x81"]


def elements(big=True):
    opts = [
        st.sampled_from(NUM_EDGES).map(interp.num_encode),
        st.sampled_from(ODD_ELEMS),
        st.integers(-20, 20).map(interp.num_encode),
        st.binary(max_size=4),
    ]
    if big:
        opts.append(st.binary(min_size=5, max_size=10))
        opts.append(txgen.sized_bytes(st.sampled_from([20, 32, 33, 64, 80])))
    return st.one_of(*opts)


def contexts():
    return st.fixed_dictionaries({
        "version": st.sampled_from([0, 1, 2, 3, 0xFFFFFFFF]),
        "locktime": st.one_of(st.sampled_from([0, 1, 100, 499999999, 500000000, 500000001, 0xFFFFFFFF]),
                              st.integers(0, 0xFFFFFFFF)),
        "sequence": st.one_of(st.sampled_from([0, 1, 10, 0xFFFF, 0x10000, (1 << 22), (1 << 22) | 10,
                                               (1 << 31), (1 << 31) | 10, 0xFFFFFFFE, 0xFFFFFFFF]),
                              st.integers(0, 0xFFFFFFFF)),
    })


def make_tx(ctx):
    ti = TxIn(b"\x11" * 32, 0, Script(), ctx["sequence"])
    return Tx(ctx["version"], [ti], [], ctx["locktime"])


# ------------------------------------------------------------------ single opcode

SINGLE_OPS = sorted(o for o in OP_CODE_FUNCTIONS if o not in (99, 100, 172, 173, 174, 175))
NUMERIC_OPS = (interp.UNARY_NUM | interp.BINARY_NUM | {165, 121, 122})


@st.composite
def single_cases(draw):
    op = draw(st.sampled_from(SINGLE_OPS))
    numeric = op in NUMERIC_OPS
    depth = draw(st.integers(0, 7))
    stack = draw(st.lists(elements(big=not numeric or draw(st.integers(0, 9)) == 0),
                          min_size=depth, max_size=depth))
    if op in (121, 122) and stack and draw(st.integers(0, 3)) > 0:
        stack[-1] = interp.num_encode(draw(st.integers(-2, 8)))
    if op in (177, 178) and stack and draw(st.integers(0, 3)) > 0:
        stack[-1] = interp.num_encode(draw(st.one_of(
            st.sampled_from([0, 1, -1, 10, 499999999, 500000000, 1 << 22, (1 << 22) | 5, 1 << 31,
                             (1 << 31) | 5, 0xFFFFFFFF, 0xFFFF]), st.integers(-1, 0xFFFFFFFF))))
    return {"op": op, "stack": stack, "alt": draw(st.lists(elements(), max_size=3)),
            "ctx": draw(contexts())}


def check_single(case, ctx):
    op = case["op"]
    stack = [bytes(x) for x in case["stack"]]
    alt = [bytes(x) for x in case["alt"]]
    ctx.label(f"op:{op}")
    ctx.nontrivial()
    try:
        ok, rs, ra = interp.run([op], case["ctx"], stack, alt)
    except interp.NumOverflow:
        raise Discard("numeric operand longer than 4 bytes")
    fn = OP_CODE_FUNCTIONS[op]
    s, a = list(stack), list(alt)
    if op in (107, 108):
        call = lambda: fn(s, a)  # noqa
    elif op in (177, 178):
        tx = make_tx(case["ctx"])
        call = lambda: fn(s, tx, 0)  # noqa
    else:
        call = lambda: fn(s)  # noqa
    st_, got = attempt(call)
    got_ok = st_ == "ok" and bool(got)
    ctx.label("ref_ok" if ok else "ref_fail")
    if ok:
        require(got_ok, f"single/op{op}:fails_where_consensus_succeeds",
                f"stack={[x.hex() for x in stack]} alt={[x.hex() for x in alt]} ctx={case['ctx']} -> {st_}:{got!r}")
        require(s == rs and a == ra, f"single/op{op}:wrong_result_stack",
                f"stack={[x.hex() for x in stack]} got={[x.hex() for x in s]} want={[x.hex() for x in rs]}")
    else:
        require(not got_ok, f"single/op{op}:succeeds_where_consensus_fails",
                f"stack={[x.hex() for x in stack]} alt={[x.hex() for x in alt]} ctx={case['ctx']} got={[x.hex() for x in s]}")


# ----------------------------------------------------------------------- programs

STACK_NEED = {105: 1, 107: 1, 109: 2, 110: 2, 111: 3, 112: 4, 113: 6, 114: 4, 115: 1, 117: 1, 118: 1,
              119: 2, 120: 2, 121: 2, 122: 2, 123: 3, 124: 2, 125: 2, 130: 1, 135: 2, 136: 2, 165: 3,
              177: 1, 178: 1}
for _o in interp.UNARY_NUM:
    STACK_NEED[_o] = 1
for _o in interp.BINARY_NUM:
    STACK_NEED[_o] = 2
for _o in interp.HASHES:
    STACK_NEED[_o] = 1
STACK_EFFECT = {105: -1, 107: -1, 108: 1, 109: -2, 110: 2, 111: 3, 112: 2, 113: 0, 114: 0, 115: 1, 116: 1,
                117: -1, 118: 1, 119: -1, 120: 1, 121: 0, 122: -1, 123: 0, 124: 0, 125: 1, 130: 1,
                135: -1, 136: -2, 165: -2, 157: -2}
PROGRAM_OPS = sorted(o for o in interp.SUPPORTED if o not in (99, 100, 103, 104))


def instr():
    return st.one_of(
        st.tuples(st.just("push"), elements(), st.integers(0, 99)),
        st.tuples(st.just("op"), st.sampled_from(PROGRAM_OPS), st.integers(0, 99)),
        st.tuples(st.just("op"), st.sampled_from([0, 79, 81, 82, 83, 96, 116]), st.integers(0, 99)),
        st.tuples(st.just("op"), st.sampled_from([107, 108, 112, 113, 114, 121, 122, 123, 125, 130, 165]),
                  st.integers(0, 99)),
        st.tuples(st.sampled_from(["if", "notif", "else", "endif"]), st.just(0), st.integers(0, 99)),
    )


def program_cases():
    return st.fixed_dictionaries({
        "instrs": st.lists(instr(), min_size=1, max_size=40),
        "final": st.one_of(st.none(), st.sampled_from([b"\x01", b"", b"\x00", b"\x80", b"\x00\x00",
                                                        b"\x00\x80", b"\x80\x00", b"\x02"])),
        "ctx": contexts(),
    })


def assemble(instrs, final):
    """turn the abstract instruction list into a properly nested program of <= 40 operations"""
    prog = []
    open_ifs = []  # True when the innermost open IF already has its ELSE
    depth = 0
    for kind, v, g in instrs:
        if len(prog) >= 38:
            break
        if kind == "push":
            prog.append(bytes(v))
            depth += 1
        elif kind == "op":
            need = STACK_NEED.get(v, 0)
            if g < 85 and need > depth:
                # make the operation executable at the current symbolic depth
                while depth < need and len(prog) < 36:
                    prog.append(interp.num_encode((g + depth) % 5))
                    depth += 1
            prog.append(v)
            if v in interp.UNARY_NUM or v in interp.HASHES or v in (177, 178) or v in interp.NOPS:
                eff = 0
            elif v in interp.BINARY_NUM and v != 157:
                eff = -1
            elif v in (0, 79) or 81 <= v <= 96:
                eff = 1
            else:
                eff = STACK_EFFECT.get(v, 0)
            depth = max(0, depth + eff)
        elif kind in ("if", "notif"):
            if len(open_ifs) >= 4:
                continue
            if g < 85 and depth < 1:
                prog.append(interp.num_encode(g % 2))
                depth += 1
            prog.append(99 if kind == "if" else 100)
            depth = max(0, depth - 1)
            open_ifs.append(False)
        elif kind == "else":
            if open_ifs and not open_ifs[-1]:
                open_ifs[-1] = True
                prog.append(103)
        elif kind == "endif":
            if open_ifs:
                open_ifs.pop()
                prog.append(104)
    for _ in open_ifs:
        prog.append(104)
    if final is not None:
        prog.append(bytes(final))
    return prog


def shape_observer(stack, remaining):
    if (len(remaining) == 3 and remaining[0] == 0xA9 and isinstance(remaining[1], bytes)
            and len(remaining[1]) == 20 and remaining[2] == 0x87):
        raise Discard("p2sh pattern")
    if len(stack) == 2 and stack[0] == b"" and len(stack[1]) in (20, 32):
        raise Discard("witness v0 pattern")
    if len(stack) == 2 and stack[0] == b"\x01" and len(stack[1]) == 32:
        raise Discard("witness v1 pattern")


def check_program(case, ctx):
    prog = assemble(case["instrs"], case["final"])
    if not prog:
        raise Discard("empty program")
    compare_program(prog, case, ctx)


def properly_nested(prog):
    """IF/NOTIF/ELSE/ENDIF balanced with at most one ELSE per IF (the property's domain)"""
    stack = []
    for t in prog:
        if t in (99, 100):
            stack.append(False)
        elif t == 103:
            if not stack or stack[-1]:
                return False
            stack[-1] = True
        elif t == 104:
            if not stack:
                return False
            stack.pop()
    return not stack


def fuzz_seeds(tier):
    def ser(ctx9, prog):
        return ctx9 + Script(prog).raw_serialize()
    c = bytes([2]) + (500).to_bytes(4, "little") + (10).to_bytes(4, "little")
    return [ser(c, [0x51, 0x52, 0x93, 0x53, 0x87]),
            ser(c, [0x51, 0x63, 0x52, 0x67, 0x53, 0x68, 0x52, 0x87]),
            ser(c, [b"\x01", b"\x02", b"\x03", b"\x04", b"\x05", b"\x06", 0x71, 0x75, 0x75, 0x75, 0x75, 0x75, 0x53, 0x87]),
            ser(c, [b"\xf4\x01", 0xB1, 0x75, b"\x0a", 0xB2, 0x75, 0x51, 0x6B, 0x6C, 0x76, 0xA8, 0x82, 0x77]),
            ser(c, [0x52, 0x53, 0x54, 0x7B, 0x7C, 0x7D, 0x79, 0x7A, 0x74, 0xA5, 0x9A])]


def check_fuzz_program(case, ctx):
    """bytes -> (transaction context, script): every script that Script.parse turns into a program over
    the supported opcode set (properly nested, <= 40 operations) is judged like the generated programs"""
    data = case["data"]
    if len(data) < 10:
        raise Discard("too short")
    c = {"version": [0, 1, 2, 0xFFFFFFFF][data[0] % 4], "locktime": int.from_bytes(data[1:5], "little"),
         "sequence": int.from_bytes(data[5:9], "little")}
    st_, sc = attempt(Script.parse, None, data[9:])
    if st_ == "exc" or sc.raw is not None:
        ctx.label("unparseable")
        return
    prog = list(sc.commands)
    if len(prog) > 40 or any(isinstance(t, int) and t not in interp.SUPPORTED for t in prog):
        ctx.label("outside_opcode_set")
        return
    if any(isinstance(t, bytes) and len(t) > 520 for t in prog) or not properly_nested(prog):
        ctx.label("outside_domain")
        return
    ctx.label("judged")
    compare_program(prog, {"ctx": c}, ctx)


def compare_program(prog, case, ctx):
    trace = []
    try:
        want = interp.evaluate(prog, case["ctx"], observer=shape_observer, trace=trace)
    except interp.NumOverflow:
        raise Discard("numeric operand longer than 4 bytes")
    ctx.nontrivial(len(trace) >= 5)
    ctx.label("ref_accept" if want else "ref_reject")
    executed = set(trace)
    for o, name in ((113, "2ROT"), (112, "2OVER"), (114, "2SWAP"), (125, "TUCK"), (123, "ROT"),
                    (121, "PICK"), (122, "ROLL"), (107, "TOALT"), (108, "FROMALT"), (177, "CLTV"),
                    (178, "CSV"), (165, "WITHIN")):
        if o in executed:
            ctx.label("executed:" + name)
    d = m = 0
    for t in prog:
        if t in (99, 100):
            d += 1
            m = max(m, d)
        elif t == 104:
            d -= 1
    if m >= 2:
        ctx.label("nested_if")
    if m >= 1:
        ctx.label("conditional")
    ok, stack, _ = interp.run(prog, case["ctx"])
    if ok and stack and stack[-1] in (b"\x00", b"\x80", b"\x00\x00", b"\x00\x80"):
        ctx.label("final_top_nonminimal_false")
    tx = make_tx(case["ctx"])
    st_, got = attempt(Script(list(prog)).evaluate, tx, 0)
    accepted = st_ == "ok" and bool(got)

    def show():
        return " ".join(t.hex() or "''" if isinstance(t, bytes) else f"OP{t}" for t in prog) + f" ctx={case['ctx']}"

    if 113 in executed:
        # programs that execute OP_2ROT are kept apart: a listed known finding (see known_findings.json)
        # concerns exactly this opcode, every other program is judged by the buckets below
        ctx.label("excluded_known:2rot_executed")
        require(accepted == want, "program/2rot_executed:verdict_differs", lambda: show()[:600])
        return
    if want:
        require(accepted, "program/rejects_what_consensus_accepts", lambda: f"{st_}:{got!r} {show()}"[:600])
    else:
        require(not accepted, "program/accepts_what_consensus_rejects", lambda: show()[:600])


# ------------------------------------------------------------------- number codec


def codec_enum(tier):
    yield {"len": 0, "first": 0}
    for n in (1, 2) + ((3,) if tier == "thorough" else ()):
        for first in range(256):
            yield {"len": n, "first": first}
    for lo in range(-70000, 70001, 5000):
        yield {"len": -1, "first": lo}


def check_codec(case, ctx):
    n, first = case["len"], case["first"]
    ctx.nontrivial()
    if n == -1:
        for v in range(first, min(first + 5000, 70001)):
            e = encode_num(v)
            require(e == interp.num_encode(v), "codec/encode_not_minimal", f"{v} -> {e.hex()}")
            require(decode_num(e) == v, "codec/decode_encode", str(v))
        ctx.label("ints", 5000)
        return
    if n == 0:
        require(decode_num(b"") == 0, "codec/decode_empty")
        return
    import itertools

    count = 0
    for rest in itertools.product(range(256), repeat=n - 1):
        b = bytes((first,) + rest)
        got = decode_num(b)
        want = interp.num_decode(b)
        if got != want:
            require(False, "codec/decode", f"{b.hex()} -> {got} want {want}")
        back = encode_num(got)
        if back != interp.num_encode(want) or decode_num(back) != want:
            require(False, "codec/encode_of_decoded", f"{b.hex()} -> {got} -> {back.hex()}")
        count += 1
    ctx.label(f"strings_len{n}", count)


def codec_int_cases():
    return st.fixed_dictionaries({"v": st.one_of(
        st.integers(-(2**31) + 1, 2**31 - 1), st.sampled_from(NUM_EDGES),
        st.integers(-(2**40), 2**40), st.integers(-(2**63), 2**63))})


def check_codec_int(case, ctx):
    v = case["v"]
    ctx.nontrivial()
    ctx.label("within_4_bytes" if abs(v) < 2**31 else "wider")
    e = encode_num(v)
    require(e == interp.num_encode(v), "codec/encode_not_minimal", f"{v} -> {e.hex()}")
    require(decode_num(e) == v, "codec/decode_encode", str(v))


# ---------------------------------------------------------------------- timelocks

OPERANDS = [-1, 0, 1, 2, 10, 0xFFFF, 0x10000, 499999999, 500000000, 500000001, (1 << 22) - 1, 1 << 22,
            (1 << 22) + 1, (1 << 22) | 10, 2**31 - 1, 2**31, 2**31 + 1, (1 << 31) | 10,
            (1 << 31) | (1 << 22) | 10, 2**32 - 1]


def timelock_cases():
    return st.fixed_dictionaries({
        "op": st.sampled_from([177, 178]),
        # script numbers of up to 5 bytes are legal operands of CLTV / CSV: the range above 2^32 matters
        # (CSV reads the disable / type flags and the value out of the low 32 bits; CLTV compares in full)
        "operand": st.one_of(st.sampled_from(OPERANDS), st.integers(-1, 2**32 - 1),
                             st.integers(2**32, 2**39 - 1),
                             st.sampled_from([2**32, 2**32 + 5, 2**32 + (1 << 31), 2**32 + (1 << 22) + 3,
                                              2**39 - 1, 2**38, 2**32 - 1, 0x180000000])),
        "pad": st.booleans(),
        "ctx": contexts(),
        "below": st.lists(elements(), max_size=2),
    })


def check_timelock(case, ctx):
    op, n = case["op"], case["operand"]
    ctx.nontrivial()
    enc = interp.num_encode(n)
    if case["pad"] and n > 0 and len(enc) < 5 and not enc[-1] & 0x80:
        enc = enc + b"\x00"  # non-minimal but still a valid script number
    name = "cltv" if op == 177 else "csv"
    c = case["ctx"]
    if op == 178 and n >= 0 and n & (1 << 31):
        ctx.label("csv_operand_disable_flag")
    if op == 178 and n >= 0 and n & (1 << 22):
        ctx.label("csv_operand_time_type")
    if op == 177 and n >= 500000000:
        ctx.label("cltv_operand_time_type")
    if n == -1:
        ctx.label("negative_operand")
    if n >= 2**32:
        ctx.label(f"{name}_operand>=2^32")
    stack = [bytes(x) for x in case["below"]] + [enc]
    ok, rs, _ = interp.run([op], c, stack, [])
    ctx.label(f"{name}:{'ok' if ok else 'fail'}")
    tx = make_tx(c)
    s = list(stack)
    st_, got = attempt(OP_CODE_FUNCTIONS[op], s, tx, 0)
    got_ok = st_ == "ok" and bool(got)
    detail = f"operand={n} enc={enc.hex()} ctx={c}"
    if ok:
        require(got_ok, f"timelock/{name}:fails_where_consensus_succeeds", f"{detail} -> {st_}:{got!r}")
        require(s == rs, f"timelock/{name}:stack_changed", detail)
    else:
        require(not got_ok, f"timelock/{name}:succeeds_where_consensus_fails", detail)
    # the one-opcode script
    want = interp.evaluate([enc, op], c)
    st_, got = attempt(Script([enc, op]).evaluate, tx, 0)
    require((st_ == "ok" and bool(got)) == want, f"timelock/{name}:script_verdict_differs",
            f"{detail} want={want} got={st_}:{got!r}")


SUBS = [
    Sub("single_opcode", check_single, strategy=lambda tier: single_cases(),
        budget={"quick": 60000, "thorough": 2000000}, required=[f"op:{o}" for o in SINGLE_OPS],
        nontrivial_rule="every (opcode, stack) case"),
    Sub("programs", check_program, strategy=lambda tier: program_cases(),
        budget={"quick": 50000, "thorough": 2000000},
        required=["nested_if", "final_top_nonminimal_false", "ref_accept", "ref_reject"]
        + ["executed:" + n for n in ("2ROT", "2OVER", "2SWAP", "TUCK", "ROT", "PICK", "ROLL", "TOALT",
                                     "FROMALT", "CLTV", "CSV", "WITHIN")],
        nontrivial_rule="program whose reference run executes >= 5 operations"),
    Sub("fuzz_programs", check_fuzz_program, kind="fuzz", seeds=fuzz_seeds, max_len=200,
        budget={"quick": 20000, "thorough": 3000000}, required=["judged"],
        nontrivial_rule="script bytes that parse into a program over the supported opcode set that executes >= 5 operations",
        doc="quick: Hypothesis byte-level mutations of seed scripts; thorough: atheris coverage-guided "
            "differential of Script.evaluate against the reference interpreter"),
    Sub("number_codec", check_codec, kind="exhaustive", enumerate=codec_enum,
        nontrivial_rule="one case = all byte strings with a fixed length and first byte, or 5000 consecutive integers"),
    Sub("number_codec_ints", check_codec_int, strategy=lambda tier: codec_int_cases(),
        budget={"quick": 20000, "thorough": 500000}),
    Sub("timelocks", check_timelock, strategy=lambda tier: timelock_cases(),
        budget={"quick": 40000, "thorough": 1000000},
        required=["csv_operand_disable_flag", "csv_operand_time_type", "cltv_operand_time_type",
                  "negative_operand", "cltv:ok", "cltv:fail", "csv:ok", "csv:fail",
                  "csv_operand>=2^32", "cltv_operand>=2^32"]),
]
