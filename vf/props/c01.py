"""C01 ECDSA: signing complete + RFC 6979 + low S + DER; verification exact."""
from hypothesis import strategies as st

from buidl.pecc import PrivateKey, S256Point, Signature

from vf import gen
from vf.core import Sub, Violation, attempt, require
from vf.ref import ec

N = ec.N
RULE = (
    "sign_matches_rfc6979: (secret, digest) pairs from edges+uniform; verify_exact: a valid "
    "tuple built by the REFERENCE signer with a generated nonce, then one mutation kind "
    "(incl. the constructed class R.x >= n); low_s_boundary: s forced into the window around "
    "n/2 by stubbing the nonce in the harness; der_codec: (r, s) over all byte widths. "
    "Non-trivial: every mutated tuple / every sign case (distinct by full case record)."
)
ASSUMPTIONS = [
    "low_s_boundary replaces PrivateKey.deterministic_k in the harness process to steer s "
    "(the window has measure 2^-129 otherwise)",
]


def selftest():
    ec.ensure_selftest()


# ---------------------------------------------------------------- sign


def sign_strategy(tier):
    return st.fixed_dictionaries({"secret": gen.secrets(), "z": gen.digests()})


def check_sign(case, ctx):
    d, z = case["secret"], case["z"]
    ctx.nontrivial()
    if z >= N:
        ctx.label("digest>=n")
    if z == N:
        ctx.label("digest==n")
    if d > N - 2**21:
        ctx.label("secret_near_n")
    priv = PrivateKey(d)
    require(
        (priv.point.x.num, priv.point.y.num) == ec.mul(d), "sign/pubkey_mismatch"
    )
    sig = priv.sign(z)
    want = ec.ecdsa_sign(d, z)
    require(sig.s <= N // 2, "sign/high_s", f"s={sig.s:x}")
    require(1 <= sig.r < N and 1 <= sig.s < N, "sign/out_of_range")
    require(ec.ecdsa_verify(ec.mul(d), z, sig.r, sig.s), "sign/ref_verify_rejects_own_sig")
    require((sig.r, sig.s) == want, "sign/not_rfc6979",
            f"d={d:x} z={z:x} got=({sig.r:x},{sig.s:x}) want=({want[0]:x},{want[1]:x})")
    st_, ok = attempt(priv.point.verify, z, sig)
    require(st_ == "ok" and ok is True, "sign/own_sig_does_not_verify", f"{st_} {ok}")
    derb = sig.der()
    require(derb == ec.der(*want), "sign/der_differs", derb.hex())
    back = Signature.parse(derb)
    require((back.r, back.s) == want, "sign/der_roundtrip")
    # message API: z = hash256(message)
    if z < 2**32:
        msg = z.to_bytes(4, "big")
        from hashlib import sha256

        zz = int.from_bytes(sha256(sha256(msg).digest()).digest(), "big")
        s2 = priv.sign_message(msg)
        require((s2.r, s2.s) == ec.ecdsa_sign(d, zz), "sign/sign_message_not_hash256")
        require(priv.point.verify_message(msg, s2) is True, "sign/verify_message")
        ctx.label("message_api")


def history_strategy(tier):
    """two key objects used for an interleaved sequence of sign / verify calls"""
    op = st.tuples(st.sampled_from(["sign", "sign", "verify", "verify_wrong"]), st.integers(0, 1),
                   st.integers(0, 2))
    return st.fixed_dictionaries({
        "secrets": st.tuples(gen.secrets(), gen.secrets()),
        "zs": st.tuples(gen.digests(), gen.digests(), gen.digests()),
        "ops": st.lists(op, min_size=3, max_size=7),
    })


def check_history(case, ctx):
    ds, zs = case["secrets"], case["zs"]
    privs = [PrivateKey(d) for d in ds]
    points = [S256Point(*ec.mul(d)) for d in ds]
    signed = set()
    resign = False
    for kind, ki, zi in case["ops"]:
        d, z = ds[ki], zs[zi]
        want = ec.ecdsa_sign(d, z)
        if kind == "sign":
            if (ki, zi) in signed or any(k != ki or zz != zi for k, zz in signed):
                resign = True
            signed.add((ki, zi))
            sig = privs[ki].sign(z)
            require((sig.r, sig.s) == want, "history/signature_depends_on_earlier_calls",
                    f"ops={case['ops']!r}")
        elif kind == "verify":
            require(points[ki].verify(z, Signature(*want)) is True,
                    "history/valid_signature_rejected_after_earlier_calls")
        else:
            other = ec.ecdsa_sign(ds[1 - ki], z)
            if ds[0] == ds[1]:
                continue
            st_, ok = attempt(points[ki].verify, z, Signature(*other))
            require(not (st_ == "ok" and ok), "history/invalid_signature_accepted_after_earlier_calls")
    ctx.nontrivial(resign)
    ctx.label("several_signatures_on_one_object" if resign else "single")


# -------------------------------------------------------------- verify

MUTS = [
    "none", "none_high_s", "neg_s", "z+1", "z-1", "z+n", "z_random", "other_key",
    "r+1", "r-1", "s+1", "s-1", "r=0", "s=0", "r=n", "s=n", "r+n", "s+n", "r=2^256-1",
    "s=2^256-1", "random_rs", "rx_ge_n_valid", "rx_ge_n_unreduced", "r_neg", "s_neg",
    "swap_rs", "neg_pub", "uG_equals_vP", "uG_equals_minus_vP", "valid_s_edge", "valid_r_small",
]
S_EDGES = [1, 2, 3, N - 1, N - 2, N - 3, N // 2, N // 2 + 1, N // 2 - 1, 2**255, 2**255 - 1, 2**128, 0xFF, 0x100]


def verify_strategy(tier):
    return st.fixed_dictionaries(
        {
            "d": gen.secrets(),
            "z": gen.digests(),
            "k": gen.secrets(),
            "mut": gen.choice(MUTS),
            "aux": gen.uniform_int(1, N - 1),
            "aux2": gen.uniform_int(1, N - 1),
            "j": st.integers(0, 2**20),
        }
    )


def build_tuple(case):
    d, z, k, mut = case["d"], case["z"], case["k"], case["mut"]
    pub = ec.mul(d)
    sig = ec.ecdsa_sign_with_k(d, z, k, low_s=(mut != "none_high_s"))
    if sig is None:
        return None
    r, s = sig
    if mut == "none_high_s" and s <= N // 2:
        s = N - s
    if mut in ("none", "none_high_s"):
        pass
    elif mut == "neg_s":
        s = N - s
    elif mut == "z+1":
        z = (z + 1) % 2**256
    elif mut == "z-1":
        z = (z - 1) % 2**256
    elif mut == "z+n":
        z = z + N  # same residue: still valid (may exceed 2^256: verify takes any int)
    elif mut == "z_random":
        z = case["aux"]
    elif mut == "other_key":
        pub = ec.mul(case["aux"])
    elif mut == "neg_pub":
        pub = ec.neg(pub)
    elif mut == "r+1":
        r += 1
    elif mut == "r-1":
        r -= 1
    elif mut == "s+1":
        s += 1
    elif mut == "s-1":
        s -= 1
    elif mut == "r=0":
        r = 0
    elif mut == "s=0":
        s = 0
    elif mut == "r=n":
        r = N
    elif mut == "s=n":
        s = N
    elif mut == "r+n":
        r += N
    elif mut == "s+n":
        s += N
    elif mut == "r=2^256-1":
        r = 2**256 - 1
    elif mut == "s=2^256-1":
        s = 2**256 - 1
    elif mut == "random_rs":
        r, s = case["aux"], case["aux2"]
    elif mut == "r_neg":
        r = -r
    elif mut == "s_neg":
        s = s - N
    elif mut == "swap_rs":
        r, s = s, r
    elif mut in ("uG_equals_vP", "uG_equals_minus_vP"):
        # constructed: the two partial results of verification are the same point (the final addition
        # is a doubling of two separately computed points) or opposite points (the sum is infinity)
        t = case["k"]
        if mut == "uG_equals_vP":
            R = ec.mul(2 * t)
            if R is None:
                return None
            r = R[0] % N
            z = r * d % N
            s = r * d * pow(t, -1, N) % N          # u = z/s = t, v = r/s = t/d, v*P = t*G
        else:
            r = case["aux"] % N
            z = (-r * d) % N                       # u = z/s = -r*d/s, v*P = (r/s)*d*G = -u*G
            s = case["aux2"] % N
        if r == 0 or s == 0:
            return None
    elif mut == "valid_s_edge":
        # a VALID tuple whose s sits at an end of [1, n-1] (or around n/2, 2^255): the digest is chosen
        # for the nonce, z = s*k - r*d
        R = ec.mul(k)
        r = R[0] % N
        s = S_EDGES[case["j"] % len(S_EDGES)]
        z = (s * k - r * d) % N
        if r == 0:
            return None
    elif mut == "valid_r_small":
        # a VALID tuple whose r is tiny (1, 2, 3, ...): R is lifted from x = r and the key recovered
        x = 1 + case["j"] % 50
        R = None
        while R is None:
            R = ec.lift_x(x, odd=bool(case["aux"] & 1))
            if R is None:
                x += 1
        r, s, z = x, case["aux2"], case["z"]
        pub = ec.mul(pow(r, -1, N), ec.add(ec.mul(s, R), ec.neg(ec.mul(z))))
        if pub is None:
            return None
    elif mut in ("rx_ge_n_valid", "rx_ge_n_unreduced"):
        # construct a signature whose nonce point has x in [n, p)
        x = N + case["j"]
        R = None
        while R is None:
            R = ec.lift_x(x, odd=bool(case["aux"] & 1))
            if R is None:
                x += 1
        assert N <= x < ec.P
        rr = x - N
        if rr == 0:
            return None
        s = case["aux2"]
        z = case["z"]
        # P = r^-1 (sR - zG)
        pub = ec.mul(pow(rr, -1, N), ec.add(ec.mul(s, R), ec.neg(ec.mul(z))))
        if pub is None:
            return None
        r = rr if mut == "rx_ge_n_valid" else x
    else:
        raise AssertionError(mut)
    return pub, z, r, s


def check_verify(case, ctx):
    t = build_tuple(case)
    if t is None:
        from vf.core import Discard

        raise Discard("degenerate")
    pub, z, r, s = t
    mut = case["mut"]
    ctx.label("mut:" + mut)
    ctx.nontrivial(mut != "none")
    want = ec.ecdsa_verify(pub, z, r, s)
    ctx.label("ref_valid" if want else "ref_invalid")
    if mut in ("none", "none_high_s", "neg_s", "z+n", "rx_ge_n_valid", "uG_equals_vP", "valid_s_edge",
               "valid_r_small"):
        assert want, mut
    if mut == "uG_equals_minus_vP":
        assert not want, mut
    point = S256Point(pub[0], pub[1])
    st_, got = attempt(point.verify, z, Signature(r, s))
    if want:
        require(st_ == "ok" and got is True, f"verify/rejects_valid:{mut}",
                f"{st_}:{got!r} pub={ec.sec(pub).hex()} z={z:x} r={r:x} s={s:x}")
    else:
        require(not (st_ == "ok" and got), f"verify/accepts_invalid:{mut}",
                f"pub={ec.sec(pub).hex()} z={z:x} r={r:x} s={s:x}")


# ----------------------------------------------------------- low S boundary

S_TARGETS = [N // 2 - 2, N // 2 - 1, N // 2, N // 2 + 1, N // 2 + 2, 2**255, 2**255 - 1,
             2**255 + 1, N - 1, N - 2, 1, 2]


def lows_strategy(tier):
    return st.fixed_dictionaries(
        {
            "d": gen.secrets(),
            "k": gen.secrets(),
            "s": st.one_of(
                st.sampled_from(S_TARGETS),
                gen.uniform_int(N // 2 + 1, 2**255),
                st.integers(0, 2**70).map(lambda e: N // 2 + 1 + e),
                st.integers(0, 2**40).map(lambda e: N // 2 - e),
                gen.uniform_int(1, N - 1),
            ),
        }
    )


def check_lows(case, ctx):
    d, k, s = case["d"], case["k"], case["s"]
    R = ec.mul(k)
    r = R[0] % N
    if r == 0:
        from vf.core import Discard

        raise Discard("r=0")
    z = (s * k - r * d) % N
    ctx.nontrivial()
    if N // 2 < s <= 2**255:
        ctx.label("float_window")
    elif s > N // 2:
        ctx.label("high")
    else:
        ctx.label("low")
    want = ec.ecdsa_sign_with_k(d, z, k)
    priv = PrivateKey.__new__(PrivateKey)  # avoid the 34 ms scalar multiplication
    priv.secret = d
    priv.network = "mainnet"
    priv.compressed = True
    orig = PrivateKey.deterministic_k
    PrivateKey.deterministic_k = lambda self, zz: k
    try:
        sig = priv.sign(z)
    finally:
        PrivateKey.deterministic_k = orig
    require(sig.s <= N // 2, "lows/high_s_emitted", f"s={sig.s:x}")
    require((sig.r, sig.s) == want, "lows/wrong_signature")
    require(ec.ecdsa_verify(ec.mul(d), z, sig.r, sig.s), "lows/does_not_verify")


# ---------------------------------------------------------------- DER codec


def _width_int():
    # integers in [1, n-1] of every byte width, with and without the high bit
    return st.one_of(
        st.integers(1, 32).flatmap(
            lambda w: st.integers(1 if w == 1 else 1 << (8 * (w - 1)), (1 << (8 * w)) - 1)
        ).filter(lambda v: 1 <= v < N),
        gen.secrets(),
        st.sampled_from([1, 0x7F, 0x80, 0xFF, 0x100, 0x7FFF, 0x8000, 2**248 - 1, 2**248,
                         2**255 - 1, 2**255, N - 1]),
    )


def der_strategy(tier):
    return st.fixed_dictionaries({"r": _width_int(), "s": _width_int()})


def check_der(case, ctx):
    r, s = case["r"], case["s"]
    ctx.nontrivial()
    ctx.label(f"rlen={(r.bit_length() + 8) // 8}")
    d = Signature(r, s).der()
    require(d == ec.der(r, s), "der/encoding_differs", f"r={r:x} s={s:x} got={d.hex()}")
    require(ec.der_parse_strict(d) == (r, s), "der/not_strict")
    back = Signature.parse(d)
    require((back.r, back.s) == (r, s), "der/roundtrip", f"r={r:x} s={s:x}")


SUBS = [
    Sub("sign_matches_rfc6979", check_sign, strategy=sign_strategy,
        budget={"quick": 1100, "thorough": 30000},
        required=["digest>=n", "digest==n", "secret_near_n", "message_api"],
        nontrivial_rule="every (secret, digest) pair"),
    Sub("sign_verify_history", check_history, strategy=history_strategy, stateful=True,
        budget={"quick": 200, "thorough": 8000}, required=["several_signatures_on_one_object"],
        nontrivial_rule="history with more than one signature made by the same key object"),
    Sub("verify_exact", check_verify, strategy=verify_strategy,
        budget={"quick": 2200, "thorough": 60000},
        required=["mut:" + m for m in MUTS],
        nontrivial_rule="mutated tuple (mut != none)"),
    Sub("low_s_boundary", check_lows, strategy=lows_strategy,
        budget={"quick": 1200, "thorough": 30000}, required=["float_window", "high", "low"],
        nontrivial_rule="every case"),
    Sub("der_codec", check_der, strategy=der_strategy,
        budget={"quick": 20000, "thorough": 400000}, nontrivial_rule="every (r, s)"),
]
