"""C14 BIP39: entropy <-> mnemonic, acceptance of word sequences, seed and master key."""
import hashlib
import hmac

from hypothesis import strategies as st

import buidl.mnemonic as bm
from buidl.hd import HDPrivateKey
from buidl.helper import hmac_sha512_kdf
from buidl.mnemonic import BIP39, bytes_to_mnemonic, mnemonic_to_bytes, secure_mnemonic
from buidl.pbkdf2 import PBKDF2

from vf.core import Sub, attempt, must, require
from vf.ref import bip39 as ref

RULE = (
    "entropy_words: entropies of 16/20/24/28/32 bytes (edge patterns + uniform): bytes_to_mnemonic == "
    "reference sentence, mnemonic_to_bytes inverts it, also with any subset of words cut to four "
    "letters. secure_mnemonic: randomness and clock stubbed; output is a reference-valid sentence of "
    "the right length carrying the drawn entropy. acceptance: word sequences of 12..24 words over the "
    "2048-word list (valid; uniformly random; one word substituted; two swapped; one checksum bit or "
    "one entropy bit flipped; valid sentence shortened/extended; sentences of an INVALID length whose "
    "trailing bits are a consistent checksum; ALL 2048 last words for a fixed "
    "prefix), words optionally abbreviated: accepted <=> an independent decoder accepts (length in "
    "{12,15,18,21,24} and checksum), decoded bytes equal. prefix_table: EXHAUSTIVE over the 2048 words. "
    "seed_and_master: from_mnemonic / generate against hashlib PBKDF2 + reference BIP32 master, "
    "passphrases empty / ASCII / arbitrary bytes. pbkdf2: vendored PBKDF2 and hmac_sha512_kdf against "
    "hashlib.pbkdf2_hmac. Non-trivial: every distinct case (acceptance: every case whose sentence is "
    "not a plain reference-valid one)."
)
ASSUMPTIONS = [
    "bytes_to_mnemonic is called with num_bits == 8*len(entropy), as all callers do",
    "sentences are lower-case words separated by single spaces; abbreviations are exactly the first "
    "four letters of words longer than four letters (other prefixes, upper case and extra white "
    "space are outside the stated domain and not asserted)",
    "passphrases are bytes objects (the type from_mnemonic concatenates to b'mnemonic')",
    "buidl.mnemonic.randbits and buidl.mnemonic.time are replaced by stubs in the harness and "
    "restored in a finally block",
    "hashlib.pbkdf2_hmac (OpenSSL) is the PBKDF2 oracle; vf.ref.bip32 gives the master key",
]

ENT_LENGTHS = ref.ENTROPY_LENGTHS
TPRV = bytes.fromhex("04358394")
TPUB = bytes.fromhex("043587cf")


def selftest():
    ref.ensure_selftest()


# ------------------------------------------------------------------ helpers


def entropies():
    def of_len(n):
        return st.one_of(
            st.binary(min_size=n, max_size=n),
            st.binary(min_size=n, max_size=n),
            st.sampled_from([b"\x00", b"\xff", b"\x7f", b"\x80", b"\x55", b"\xaa"]).map(
                lambda c: c * n),
            st.binary(min_size=2, max_size=2).map(lambda b: bytes(n - 2) + b),
            st.binary(min_size=2, max_size=2).map(lambda b: b"\xff" * (n - 2) + b),
        )

    return st.sampled_from(ENT_LENGTHS).flatmap(of_len)


def masks():
    """which word positions are abbreviated to four letters (bit j = position j)"""
    return st.one_of(st.just(0), st.just((1 << 24) - 1), st.integers(0, (1 << 24) - 1))


def abbreviate(words, mask):
    out = []
    cut = 0
    for j, w in enumerate(words):
        if (mask >> j) & 1 and len(w) > 4:
            out.append(w[:4])
            cut += 1
        else:
            out.append(w)
    return out, cut


def passwords():
    return st.one_of(
        st.sampled_from([b"", b"TREZOR", b" ", b"\x00", b"\xff", b"\xff\xfe\x00\x80", b"p" * 200,
                         "pässwörd ₿".encode("utf-8"), b"mnemonic"]),
        st.binary(max_size=40),
        st.text(max_size=20).map(lambda s: s.encode("utf-8")),
    )


# ------------------------------------------------------------------ entropy <-> words


def ew_strategy(tier):
    return st.fixed_dictionaries({"entropy": entropies(), "mask": masks()})


def check_ew(case, ctx):
    e = bytes(case["entropy"])
    nbits = 8 * len(e)
    ctx.nontrivial()
    ctx.label(f"ent={nbits}")
    want = ref.entropy_to_mnemonic(e)
    got = must(bytes_to_mnemonic, "words/encode", e, nbits)
    require(got == want, "words/sentence_differs", f"entropy={e.hex()} got={got!r} want={want!r}")
    words = want.split(" ")
    require(len(words) == (nbits + nbits // 32) // 11, "words/word_count")
    back = must(mnemonic_to_bytes, "words/decode", want)
    require(back == e, "words/roundtrip", f"entropy={e.hex()} got={bytes(back).hex()}")
    short, cut = abbreviate(words, case["mask"])
    if cut:
        ctx.label("abbreviated")
        back = must(mnemonic_to_bytes, "words/decode_abbreviated", " ".join(short))
        require(back == e, "words/roundtrip_abbreviated",
                f"entropy={e.hex()} sentence={' '.join(short)!r}")


# ------------------------------------------------------------------ secure_mnemonic

BITS = (128, 160, 192, 224, 256)


def sm_strategy(tier):
    return st.fixed_dictionaries(
        {
            "num_bits": st.sampled_from(BITS),
            "rand": st.one_of(st.binary(min_size=32, max_size=32),
                              st.sampled_from([bytes(32), b"\xff" * 32])),
            "extra": st.one_of(st.just(0), st.just(0), st.integers(0, 2**16),
                               st.sampled_from([2**128, 2**256, 2**512, 2**512 - 1, 2**127]),
                               st.binary(max_size=70).map(lambda b: int.from_bytes(b, "big"))),
            "micros": st.one_of(st.just(0), st.just(0), st.integers(0, 2 * 10**15)),
        }
    )


class _Stubbed:
    """replace the randomness and the clock used by secure_mnemonic"""

    def __init__(self, rand_bytes, micros):
        self.rand_bytes = rand_bytes
        self.micros = micros
        self.calls = []

    def __enter__(self):
        self.orig = (bm.randbits, bm.time)

        def randbits(k):
            self.calls.append(k)
            return int.from_bytes(self.rand_bytes, "big") & ((1 << k) - 1)

        bm.randbits = randbits
        bm.time = lambda: self.micros / 1_000_000
        return self

    def __exit__(self, *exc):
        bm.randbits, bm.time = self.orig
        return False


def check_sm(case, ctx):
    nb, extra, micros = case["num_bits"], case["extra"], case["micros"]
    ctx.nontrivial()
    ctx.label(f"bits={nb}")
    with _Stubbed(bytes(case["rand"]), micros) as stub:
        st_, m = attempt(secure_mnemonic, nb, extra)
    require(st_ == "ok", "secure/raises", lambda: f"bits={nb} extra={extra}: {type(m).__name__}: {m}")
    require(stub.calls == [nb], "secure/randomness_request", f"randbits called with {stub.calls}")
    words = m.split(" ")
    require(len(words) == nb // 32 * 3, "secure/word_count", f"bits={nb} words={len(words)}")
    ent = ref.decode(words)
    require(ent is not None and len(ent) == nb // 8, "secure/invalid_sentence", f"bits={nb} m={m!r}")
    require(ref.entropy_to_mnemonic(ent) == m, "secure/not_canonical")
    if extra == 0 and micros == 0:
        ctx.label("pure_randomness")
        r = int.from_bytes(bytes(case["rand"]), "big") & ((1 << nb) - 1)
        require(int.from_bytes(ent, "big") == r, "secure/entropy_not_the_drawn_bits",
                f"bits={nb} drawn={r:x} encoded={ent.hex()}")
    if extra.bit_length() > nb:
        ctx.label("extra_longer_than_entropy")


# ------------------------------------------------------------------ acceptance

KINDS = ["valid", "random", "substitute", "swap", "flip_checksum_bit", "flip_entropy_bit", "resize",
         "bad_length_consistent_checksum", "all_last_words"]


def acc_strategy(tier):
    return st.fixed_dictionaries(
        {
            "kind": st.sampled_from(KINDS + ["random", "substitute", "resize"]),
            "entropy": entropies(),
            "idx": st.lists(st.integers(0, 2047), min_size=24, max_size=24),
            "length": st.integers(12, 24),
            "pos": st.integers(0, 23),
            "pos2": st.integers(0, 23),
            "word": st.integers(0, 2046),
            "bit": st.integers(0, 255),
            "delta": st.sampled_from([-3, -2, -1, 1, 2, 3]),
            "mask": masks(),
        }
    )


def check_acc(case, ctx):
    kind = case["kind"]
    e = bytes(case["entropy"])
    base = ref.entropy_to_indices(e)
    n = len(base)
    cs = n // 3
    rnd = list(case["idx"])
    ctx.label("kind:" + kind)
    idx = list(base)
    if kind == "valid":
        pass
    elif kind == "random":
        idx = rnd[: case["length"]]
    elif kind == "substitute":
        p = case["pos"] % n
        idx[p] = (idx[p] + 1 + case["word"]) % 2048
    elif kind == "swap":
        p, q = case["pos"] % n, case["pos2"] % n
        idx[p], idx[q] = idx[q], idx[p]
    elif kind == "flip_checksum_bit":
        idx[-1] ^= 1 << (case["bit"] % cs)
    elif kind == "flip_entropy_bit":
        b = case["bit"] % (8 * len(e))          # bit b of the entropy, counted from the left
        pos = b // 11
        idx[pos] ^= 1 << (10 - b % 11)
    elif kind == "resize":
        d = case["delta"]
        if n + d < 12 or n + d > 24:
            d = -d
        idx = idx[: n + d] if d < 0 else idx + rnd[:d]
    elif kind == "bad_length_consistent_checksum":
        # an invalid number of words whose trailing L//3 bits are the SHA-256 checksum of the
        # preceding whole bytes: what a decoder without the length rule would accept
        bad = [L for L in range(12, 25) if L not in ref.WORD_COUNTS]
        L = bad[case["length"] % len(bad)]
        k = L // 3
        nbytes = (L * 11 - k) // 8
        ent = (e * 3)[:nbytes]
        v = (int.from_bytes(ent, "big") << k) | (hashlib.sha256(ent).digest()[0] >> (8 - k))
        idx = [(v >> (11 * (L - 1 - j))) & 0x7FF for j in range(L)]
    elif kind == "all_last_words":
        src = base if case["pos"] % 2 else rnd[:n]
        prefix = [ref.WORDS[i] for i in src[:-1]]
        prefix, _ = abbreviate(prefix, case["mask"])
        head = " ".join(prefix) + " "
        accepted = []
        for i, w in enumerate(ref.WORDS):
            st_, got = attempt(mnemonic_to_bytes, head + w)
            if st_ == "ok" and got:
                accepted.append(i)
                want = ref.decode_indices(src[:-1] + [i])
                require(want is not None, "accept/accepts_invalid:checksum",
                        f"sentence={head + w!r}")
                require(bytes(got) == want, "accept/decoded_bytes", f"sentence={head + w!r}")
        want_set = [i for i in range(2048) if ref.decode_indices(src[:-1] + [i]) is not None]
        assert len(want_set) == 1 << (11 - cs)
        require(accepted == want_set, "accept/rejects_valid",
                lambda: f"prefix={head!r}: {len(accepted)} last words accepted, "
                        f"{len(want_set)} are valid; first difference "
                        f"{sorted(set(accepted) ^ set(want_set))[:3]}")
        ctx.nontrivial()
        ctx.label(f"len={n}")
        ctx.label("last_words_checked", 2048)
        return
    else:
        raise AssertionError(kind)

    words, cut = abbreviate([ref.WORDS[i] for i in idx], case["mask"])
    sentence = " ".join(words)
    want = ref.decode(words)
    ctx.label(f"len={len(words)}")
    if cut:
        ctx.label("abbreviated")
    ctx.nontrivial(kind != "valid" or cut > 0)
    st_, got = attempt(mnemonic_to_bytes, sentence)
    accepted = st_ == "ok" and bool(got)
    if want is None:
        reason = "length" if len(words) not in ref.WORD_COUNTS else "checksum"
        ctx.label("ref_rejects:" + reason)
        require(not accepted, "accept/accepts_invalid:" + reason, f"sentence={sentence!r}")
        # the key constructor must refuse it as well
        st2, got2 = attempt(HDPrivateKey.from_mnemonic, sentence)
        require(st2 == "exc" or not got2, "accept/from_mnemonic_accepts_invalid:" + reason,
                f"sentence={sentence!r}")
    else:
        ctx.label("ref_accepts")
        require(accepted, "accept/rejects_valid",
                lambda: f"sentence={sentence!r}: {type(got).__name__}: {got}")
        require(bytes(got) == want, "accept/decoded_bytes",
                f"sentence={sentence!r} got={bytes(got).hex()} want={want.hex()}")


# ------------------------------------------------------------------ prefix table (exhaustive)


def words_enum(tier):
    for i in range(2048):
        yield {"i": i}


def check_word(case, ctx):
    i = case["i"]
    w = ref.WORDS[i]
    ctx.nontrivial()
    ctx.label(f"wordlen={len(w)}")
    require(must(BIP39.__getitem__, "table/by_index", i) == w, "table/word_at_index",
            f"index {i}: want {w!r}")
    require(must(BIP39.__getitem__, "table/by_word", w) == i, "table/index_of_word", f"{w!r}")
    require(w in BIP39, "table/contains")
    require(must(BIP39.normalize, "table/normalize", w) == w, "table/normalize_full")
    if len(w) > 4:
        ctx.label("has_abbreviation")
        p = w[:4]
        # the library's other word list (SLIP39 shares; many four-letter prefixes occur in both lists) is
        # asked for the same prefix first: the BIP39 answer must not depend on that
        from buidl.shamir import SLIP39

        attempt(SLIP39.__getitem__, p)
        attempt(SLIP39.__getitem__, w)
        require(must(BIP39.__getitem__, "table/by_prefix", p) == i, "table/prefix_resolves_elsewhere",
                f"{p!r} should be {w!r} ({i})")
        require(must(BIP39.normalize, "table/normalize_prefix", p) == w, "table/normalize_prefix_value")


# ------------------------------------------------------------------ seed and master key


def seed_strategy(tier):
    return st.fixed_dictionaries(
        {
            "route": st.sampled_from(["from_mnemonic"] * 4 + ["generate"]),
            "entropy": entropies(),
            "password": passwords(),
            "mask": masks(),
            "network": st.sampled_from(["mainnet", "mainnet", "testnet"]),
        }
    )


def check_seed(case, ctx):
    e = bytes(case["entropy"])
    pw = bytes(case["password"])
    net = case["network"]
    route = case["route"]
    ctx.nontrivial()
    ctx.label("route:" + route)
    ctx.label("password:" + ("empty" if not pw else "ascii" if all(32 <= c < 127 for c in pw)
                             else "non_ascii"))
    if route == "generate":
        with _Stubbed(e.ljust(32, b"\x5a"), 0) as stub:
            st_, res = attempt(HDPrivateKey.generate, password=pw, extra_entropy=0, network=net)
        require(st_ == "ok", "seed/generate_raises", lambda: f"{type(res).__name__}: {res}")
        sentence, key = res
        require(stub.calls == [256], "seed/generate_randomness_request", str(stub.calls))
        ent = ref.decode(sentence.split(" "))
        require(ent == e.ljust(32, b"\x5a"), "seed/generate_sentence",
                f"sentence={sentence!r} drawn={e.ljust(32, bytes([0x5a])).hex()}")
    else:
        sentence = ref.entropy_to_mnemonic(e)
        given, cut = abbreviate(sentence.split(" "), case["mask"])
        if cut:
            ctx.label("abbreviated")
        ctx.label(f"words={len(given)}")
        key = must(HDPrivateKey.from_mnemonic, "seed/from_mnemonic", " ".join(given), pw, network=net)
    want_seed = ref.seed(sentence, pw)
    got_seed = must(hmac_sha512_kdf, "seed/kdf", sentence, b"mnemonic" + pw)
    require(got_seed == want_seed, "seed/pbkdf2_seed",
            f"sentence={sentence!r} password={pw.hex()} got={got_seed.hex()}")
    node = ref.bip32.Node.master(want_seed)
    info = f"sentence={sentence!r} password={pw.hex()} route={route}"
    require(key.private_key.secret == node.k, "seed/master_secret", info)
    require(key.chain_code == node.c, "seed/master_chain_code", info)
    require(key.depth == 0 and key.child_number == 0 and key.parent_fingerprint == bytes(4),
            "seed/master_metadata", info)
    if net == "mainnet":
        require(key.xprv() == node.xprv() and key.xpub() == node.xpub(), "seed/master_xprv", info)
    else:
        require(key.xprv() == node.xprv(TPRV) and key.xpub() == node.xpub(TPUB),
                "seed/master_tprv", info)


# ------------------------------------------------------------------ PBKDF2 differential

DIGESTS = {"sha1": 20, "sha256": 32, "sha512": 64}


def kdf_strategy(tier):
    text = st.one_of(st.text(max_size=30), st.text(alphabet="abcdefghijklmnopqrstuvwxyz ", max_size=200))
    secret = st.one_of(st.binary(max_size=150), text, st.just(b""), st.just(""))
    return st.fixed_dictionaries(
        {
            "mode": st.sampled_from(["class", "class", "class", "kdf2048"]),
            "digest": st.sampled_from(["sha512", "sha512", "sha256", "sha1"]),
            "password": secret,
            "salt": secret,
            "iters": st.one_of(st.integers(1, 4), st.integers(1, 64)),
            "reads": st.lists(st.one_of(st.integers(0, 70), st.sampled_from([0, 1, 19, 20, 21, 32, 63, 64,
                                                                             65, 128])),
                              min_size=1, max_size=5),
            "entropy": entropies(),
        }
    )


def _b(x):
    return x.encode("utf-8") if isinstance(x, str) else bytes(x)


def check_kdf(case, ctx):
    ctx.nontrivial()
    mode = case["mode"]
    ctx.label("mode:" + mode)
    if mode == "kdf2048":
        # what from_mnemonic does: str message, bytes salt, 2048 rounds, 64 bytes
        msg = case["password"]
        if not isinstance(msg, str):
            msg = ref.entropy_to_mnemonic(bytes(case["entropy"]))
        salt = b"mnemonic" + _b(case["salt"])
        want = hashlib.pbkdf2_hmac("sha512", msg.encode("utf-8"), salt, 2048, 64)
        got = must(hmac_sha512_kdf, "pbkdf2/kdf2048", msg, salt)
        require(got == want, "pbkdf2/sha512_2048_rounds", f"msg={msg!r} salt={salt.hex()}")
        if any(ord(c) > 127 for c in msg):
            ctx.label("non_ascii_message")
        return
    d = case["digest"]
    ctx.label("digest:" + d)
    pw, salt, iters = case["password"], case["salt"], case["iters"]
    reads = [r for r in case["reads"]]
    total = sum(reads)
    if isinstance(pw, str) or isinstance(salt, str):
        ctx.label("unicode_argument")
    if len(reads) > 1:
        ctx.label("several_reads")
    if total > DIGESTS[d]:
        ctx.label("several_blocks")
    want = hashlib.pbkdf2_hmac(d, _b(pw), _b(salt), iters, total) if total else b""
    p = must(PBKDF2, "pbkdf2/constructor", pw if isinstance(pw, str) else bytes(pw),
             salt if isinstance(salt, str) else bytes(salt), iterations=iters,
             digestmodule=getattr(hashlib, d), macmodule=hmac)
    out = b""
    for r in reads:
        chunk = must(p.read, "pbkdf2/read", r)
        require(len(chunk) == r, "pbkdf2/read_length", f"asked {r} got {len(chunk)}")
        out += chunk
    require(out == want, "pbkdf2/differs_from_rfc2898:" + d,
            f"password={_b(pw).hex()} salt={_b(salt).hex()} iters={iters} reads={reads} "
            f"got={out.hex()[:80]} want={want.hex()[:80]}")


SUBS = [
    Sub("entropy_words", check_ew, strategy=ew_strategy, budget={"quick": 16000, "thorough": 480000},
        required=[f"ent={b}" for b in BITS] + ["abbreviated"],
        nontrivial_rule="every distinct (entropy, abbreviation mask)"),
    Sub("secure_mnemonic", check_sm, strategy=sm_strategy, budget={"quick": 4000, "thorough": 120000},
        required=[f"bits={b}" for b in BITS] + ["pure_randomness", "extra_longer_than_entropy"],
        nontrivial_rule="every distinct (bits, stubbed randomness, extra entropy, clock)"),
    Sub("acceptance", check_acc, strategy=acc_strategy, budget={"quick": 16000, "thorough": 480000},
        required=["kind:" + k for k in KINDS] + [f"len={n}" for n in range(12, 25)]
        + ["ref_accepts", "ref_rejects:length", "ref_rejects:checksum", "abbreviated"],
        nontrivial_rule="sentence that is not a plain (unabbreviated) reference-valid one"),
    Sub("prefix_table", check_word, kind="exhaustive", enumerate=words_enum,
        required=["has_abbreviation", "wordlen=3", "wordlen=4", "wordlen=8"],
        nontrivial_rule="one case = one of the 2048 words"),
    Sub("seed_and_master", check_seed, strategy=seed_strategy,
        budget={"quick": 1600, "thorough": 48000},
        required=["route:from_mnemonic", "route:generate", "password:empty", "password:ascii",
                  "password:non_ascii", "abbreviated"] + [f"words={n}" for n in ref.WORD_COUNTS],
        nontrivial_rule="every distinct (sentence, passphrase, route, network)"),
    Sub("pbkdf2", check_kdf, strategy=kdf_strategy, budget={"quick": 3000, "thorough": 90000},
        required=["mode:class", "mode:kdf2048", "digest:sha1", "digest:sha256", "digest:sha512",
                  "several_reads", "several_blocks", "unicode_argument", "non_ascii_message"],
        nontrivial_rule="every distinct case"),
]
