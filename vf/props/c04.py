"""C04 transaction wire codec, txid, fetcher integrity."""
import struct
from io import BytesIO

from hypothesis import strategies as st

import buidl.tx as btx
from buidl.script import Script
from buidl.tx import Tx, TxFetcher, TxIn, TxOut
from buidl.witness import Witness

from vf import txgen
from vf.core import Discard, Sub, attempt, must, require
from vf.ref import txser

RULE = (
    "Structured transactions (versions, counts across the 0xfd boundary, scripts of opcodes and "
    "minimal pushes of every length class 0..520, witness stacks with items up to 70000 bytes) are "
    "serialised by an independent reference; buidl must parse/re-serialise byte-identically, expose "
    "identical fields and the witness-stripped txid. Non-trivial: tx containing a push >= 75 bytes, a "
    "count >= 253, an empty witness item or an opcode-only script."
)
ASSUMPTIONS = [
    "legacy encodings with 0 inputs (indistinguishable from the BIP144 marker) and segwit encodings "
    "whose witnesses are all empty (non-canonical per BIP144) are excluded by construction",
    "buidl.tx.urlopen is replaced in the harness by a stub that returns the generated response",
]


def selftest():
    txser.selftest()


def toks(script):
    return [t if isinstance(t, int) else bytes(t) for t in script]


def nontrivial(tx):
    big_push = any(
        (not isinstance(t, int)) and len(t) >= 75
        for part in (tx["ins"], tx["outs"]) for e in part for t in e["script"]
    )
    counts = len(tx["ins"]) >= 253 or len(tx["outs"]) >= 253
    empty_wit = any(len(w) == 0 for i in tx["ins"] for w in i["witness"])
    op_only = any(
        e["script"] and all(isinstance(t, int) for t in e["script"])
        for part in (tx["ins"], tx["outs"]) for e in part
    )
    return big_push or counts or empty_wit or op_only


def label_tx(tx, ctx):
    ctx.label("segwit" if tx["segwit"] else "legacy")
    for part in (tx["ins"], tx["outs"]):
        for e in part:
            for t in e["script"]:
                if not isinstance(t, int):
                    n = len(t)
                    if n in (74, 75, 76, 77, 255, 256, 257, 519, 520):
                        ctx.label(f"push{n}")
    for n in (len(tx["ins"]), len(tx["outs"])):
        if n >= 253:
            ctx.label("count>=253")
        if n == 252:
            ctx.label("count=252")
    if len(tx["outs"]) == 0:
        ctx.label("no_outputs")
    for i in tx["ins"]:
        for w in i["witness"]:
            if len(w) >= 65536:
                ctx.label("witness_item>=65536")
            elif len(w) >= 253:
                ctx.label("witness_item>=253")
            elif len(w) == 0:
                ctx.label("witness_item_empty")


def compare_fields(t, tx, bucket):
    require(t.version == tx["version"], bucket + "/version")
    require(int(t.locktime) == tx["locktime"], bucket + "/locktime")
    require(bool(t.segwit) == tx["segwit"], bucket + "/segwit_flag")
    require(len(t.tx_ins) == len(tx["ins"]) and len(t.tx_outs) == len(tx["outs"]), bucket + "/counts")
    for a, b in zip(t.tx_ins, tx["ins"]):
        require(a.prev_tx == b["prev_tx"], bucket + "/prev_tx")
        require(a.prev_index == b["prev_index"], bucket + "/prev_index")
        require(int(a.sequence) == b["sequence"], bucket + "/sequence")
        require(a.script_sig.raw_serialize() == txser.script_bytes(toks(b["script"])),
                bucket + "/script_sig")
        require([bytes(x) for x in a.witness.items] == [bytes(x) for x in b["witness"]],
                bucket + "/witness")
    for a, b in zip(t.tx_outs, tx["outs"]):
        require(a.amount == b["amount"], bucket + "/amount")
        require(a.script_pubkey.raw_serialize() == txser.script_bytes(toks(b["script"])),
                bucket + "/script_pubkey")


def norm(tx):
    for part in (tx["ins"], tx["outs"]):
        for e in part:
            e["script"] = toks(e["script"])
    return tx


def check_bytes(case, ctx):
    tx = norm(case["tx"])
    raw = txser.serialize(tx)
    label_tx(tx, ctx)
    ctx.nontrivial(nontrivial(tx))
    s = BytesIO(raw)
    t = must(Tx.parse, "bytes/parse", s)
    require(s.tell() == len(raw), "bytes/stream_not_consumed", f"{s.tell()} of {len(raw)}")
    out = must(t.serialize, "bytes/serialize")
    require(out == raw, "bytes/roundtrip_differs", f"raw={raw[:200].hex()} out={out[:200].hex()}")
    compare_fields(t, tx, "bytes/field")
    want_id = txser.txid(tx)
    require(t.hash() == want_id and t.id() == want_id.hex(), "bytes/txid",
            f"{t.id()} vs {want_id.hex()}")
    require(must(t.serialize_legacy, "bytes/serialize_legacy") == txser.serialize(tx, witness=False),
            "bytes/legacy_serialisation")
    t2 = must(Tx.parse_hex, "bytes/parse_hex", raw.hex())
    require(t2.serialize() == raw, "bytes/parse_hex_roundtrip")
    # the transaction in the middle of a longer stream (as inside a block or a PSBT): parsing starts at the
    # current position, reads exactly the transaction, and is not confused by what precedes or follows it
    want_id_hex = want_id.hex()
    pre = want_id[: 1 + len(raw) % 7]
    post = want_id[::-1][: len(raw) % 5]
    s3 = BytesIO(pre + raw + post)
    s3.read(len(pre))
    t3 = must(Tx.parse, "bytes/parse_inside_stream", s3)
    require(s3.tell() == len(pre) + len(raw), "bytes/embedded_stream_position",
            f"at {s3.tell()}, transaction spans {len(pre)}..{len(pre) + len(raw)}")
    require(t3.serialize() == raw and t3.id() == want_id_hex, "bytes/embedded_parse_differs")


def build_api(tx):
    ins = []
    for i in tx["ins"]:
        ti = TxIn(i["prev_tx"], i["prev_index"], Script(toks(i["script"])), i["sequence"])
        if i["witness"]:
            ti.witness = Witness([bytes(x) for x in i["witness"]])
        # else: the witness object the constructor made stays (what code that fills witnesses in later,
        # item by item, starts from)
        ins.append(ti)
    outs = [TxOut(o["amount"], Script(toks(o["script"]))) for o in tx["outs"]]
    return Tx(tx["version"], ins, outs, tx["locktime"], segwit=tx["segwit"])


def check_api(case, ctx):
    tx = norm(case["tx"])
    label_tx(tx, ctx)
    ctx.nontrivial(nontrivial(tx))
    t = build_api(tx)
    raw = must(t.serialize, "api/serialize")
    want = txser.serialize(tx)
    require(raw == want, "api/serialisation_differs", f"got={raw[:200].hex()} want={want[:200].hex()}")
    back = must(Tx.parse, "api/parse", BytesIO(raw))
    compare_fields(back, tx, "api/field")
    require(t.id() == txser.txid(tx).hex(), "api/txid")
    c = must(t.clone, "api/clone")
    require(c.serialize() == want, "api/clone_differs")


# ------------------------------------------------------------------ txid

NONWIT_FIELDS = ["version", "locktime", "prev_tx", "prev_index", "sequence", "script_sig",
                 "amount", "script_pubkey", "add_output", "drop_input"]


def meta_strategy(tier):
    return st.fixed_dictionaries(
        {
            "tx": txgen.transactions(allow_big_counts=False),
            "field": st.sampled_from(NONWIT_FIELDS),
            "idx": st.integers(0, 10),
            "delta": st.integers(1, 0xFFFFFFFF),
            "wit": st.lists(txgen.witness_stack(), min_size=5, max_size=5),
            "tok": txgen.token(),
        }
    )


def check_meta(case, ctx):
    tx = norm(case["tx"])
    ctx.nontrivial()
    base = build_api(tx)
    base_id = base.id()
    require(base_id == txser.txid(tx).hex(), "meta/txid")
    # 1. witness-only change (via API object surgery and via bytes)
    tx_w = dict(tx, segwit=True, ins=[dict(i) for i in tx["ins"]])
    for i, w in zip(tx_w["ins"], case["wit"]):
        i["witness"] = [bytes(x) for x in w]
    if all(len(i["witness"]) == 0 for i in tx_w["ins"]):
        tx_w["ins"][0]["witness"] = [b"\x01"]
    t_w = Tx.parse(BytesIO(txser.serialize(tx_w)))
    require(t_w.id() == base_id, "meta/witness_changes_txid")
    for ti, i in zip(base.tx_ins, tx_w["ins"]):
        ti.witness = Witness(list(i["witness"]))
    base.segwit = True
    require(base.id() == base_id, "meta/witness_changes_txid_api")
    ctx.label("witness_change")
    # 2. one non-witness field change
    f = case["field"]
    ctx.label("field:" + f)
    m = dict(tx, ins=[dict(i) for i in tx["ins"]], outs=[dict(o) for o in tx["outs"]])
    ii = case["idx"] % len(m["ins"])
    d = case["delta"]
    if f == "version":
        m["version"] = (m["version"] + d) % 2**32
    elif f == "locktime":
        m["locktime"] = (m["locktime"] + d) % 2**32
    elif f == "prev_tx":
        b = bytearray(m["ins"][ii]["prev_tx"])
        b[d % 32] ^= 1 + (d >> 8) % 255
        m["ins"][ii]["prev_tx"] = bytes(b)
    elif f == "prev_index":
        m["ins"][ii]["prev_index"] = (m["ins"][ii]["prev_index"] + d) % 2**32
    elif f == "sequence":
        m["ins"][ii]["sequence"] = (m["ins"][ii]["sequence"] + d) % 2**32
    elif f == "script_sig":
        m["ins"][ii]["script"] = list(m["ins"][ii]["script"]) + [case["tok"]]
    elif f in ("amount", "script_pubkey"):
        if not m["outs"]:
            raise Discard("no outputs")
        oi = case["idx"] % len(m["outs"])
        if f == "amount":
            m["outs"][oi]["amount"] = (m["outs"][oi]["amount"] + d) % 2**64
        else:
            m["outs"][oi]["script"] = list(m["outs"][oi]["script"]) + [case["tok"]]
    elif f == "add_output":
        m["outs"].append({"amount": d, "script": [case["tok"]]})
    elif f == "drop_input":
        if len(m["ins"]) < 2:
            raise Discard("single input")
        del m["ins"][ii]
    m = norm(m)
    assert txser.serialize(m, witness=False) != txser.serialize(tx, witness=False)
    t_m = build_api(m)
    require(t_m.id() != base_id, "meta/nonwitness_change_keeps_txid:" + f)
    require(t_m.id() == txser.txid(m).hex(), "meta/txid_after_change")


# ------------------------------------------------------------ object history

HIST_EDITS = ["version", "locktime", "sequence", "prev_index", "amount", "out_script", "script_sig",
              "add_output", "drop_output", "witness_set", "witness_inplace", "segwit_flag",
              "script_sig_inplace", "out_script_inplace"]
HIST_QUERIES = ["id", "serialize", "serialize_legacy", "hash", "clone", "reparse"]


def objhist_strategy(tier):
    op = st.one_of(
        st.tuples(st.just("q"), st.sampled_from(HIST_QUERIES), st.integers(0, 7), st.integers(0, 2**32 - 1)),
        st.tuples(st.just("e"), st.sampled_from(HIST_EDITS), st.integers(0, 7), st.integers(0, 2**32 - 1)),
    )
    return st.fixed_dictionaries({
        "tx": txgen.transactions(allow_big_counts=False),
        "ops": st.lists(op, min_size=3, max_size=10),
        "tok": txgen.token(),
        "wit": txgen.witness_stack().filter(lambda w: len(w) > 0),
    })


def check_objhist(case, ctx):
    """ONE Tx object: every query must reflect the current fields, whatever was asked or edited before"""
    tx = norm(case["tx"])
    t = build_api(tx)
    queried = edited_after = requery = False
    for kind, what, i, v in case["ops"]:
        if kind == "e":
            if queried:
                edited_after = True
            ctx.label("edit:" + what)
            ii = i % len(tx["ins"])
            if what == "version":
                tx["version"] = v
                t.version = v
            elif what == "locktime":
                tx["locktime"] = v
                from buidl.timelock import Locktime
                t.locktime = Locktime(v)
            elif what == "sequence":
                from buidl.timelock import Sequence
                tx["ins"][ii]["sequence"] = v
                t.tx_ins[ii].sequence = Sequence(v)
            elif what == "prev_index":
                tx["ins"][ii]["prev_index"] = v
                t.tx_ins[ii].prev_index = v
            elif what == "script_sig":
                tx["ins"][ii]["script"] = list(tx["ins"][ii]["script"]) + toks([case["tok"]])
                t.tx_ins[ii].script_sig = Script(list(tx["ins"][ii]["script"]))
            elif what == "script_sig_inplace":
                # the command list of the existing Script object is edited in place
                tx["ins"][ii]["script"] = list(tx["ins"][ii]["script"]) + toks([case["tok"]])
                t.tx_ins[ii].script_sig.commands.append(toks([case["tok"]])[0])
            elif what in ("amount", "out_script", "out_script_inplace"):
                if not tx["outs"]:
                    continue
                oi = i % len(tx["outs"])
                if what == "amount":
                    tx["outs"][oi]["amount"] = v
                    t.tx_outs[oi].amount = v
                elif what == "out_script_inplace":
                    tx["outs"][oi]["script"] = toks([case["tok"]]) + list(tx["outs"][oi]["script"])
                    t.tx_outs[oi].script_pubkey.commands.insert(0, toks([case["tok"]])[0])
                else:
                    tx["outs"][oi]["script"] = list(tx["outs"][oi]["script"]) + toks([case["tok"]])
                    t.tx_outs[oi].script_pubkey = Script(list(tx["outs"][oi]["script"]))
            elif what == "add_output":
                if len(tx["outs"]) < 8:
                    tx["outs"].append({"amount": v, "script": toks([case["tok"]])})
                    t.tx_outs.append(TxOut(v, Script(toks([case["tok"]]))))
            elif what == "drop_output":
                if tx["outs"]:
                    del tx["outs"][-1]
                    del t.tx_outs[-1]
            elif what == "witness_set":
                tx["ins"][ii]["witness"] = [bytes(x) for x in case["wit"]]
                t.tx_ins[ii].witness = Witness([bytes(x) for x in case["wit"]])
                tx["segwit"] = True
                t.segwit = True
            elif what == "witness_inplace":
                if tx["segwit"]:
                    tx["ins"][ii]["witness"].insert(0, v.to_bytes(4, "big"))
                    t.tx_ins[ii].witness.items.insert(0, v.to_bytes(4, "big"))
            elif what == "segwit_flag":
                if tx["segwit"]:
                    tx["segwit"] = False
                    t.segwit = False
                    for n, ti in enumerate(t.tx_ins):
                        ti.witness = Witness()
                        tx["ins"][n]["witness"] = []
            continue
        if tx["segwit"] and all(len(x["witness"]) == 0 for x in tx["ins"]):
            continue  # non-canonical segwit encoding (all witnesses empty): not asserted
        if queried and edited_after:
            requery = True
        queried = True
        want_id = txser.txid(tx)
        tag = "_after_edit" if edited_after else ""
        if what == "id":
            require(t.id() == want_id.hex(), "objhist/stale_or_wrong_id" + tag)
        elif what == "hash":
            require(t.hash() == want_id, "objhist/stale_or_wrong_hash" + tag)
        elif what == "serialize":
            require(t.serialize() == txser.serialize(tx), "objhist/stale_or_wrong_serialisation" + tag)
        elif what == "serialize_legacy":
            require(t.serialize_legacy() == txser.serialize(tx, witness=False),
                    "objhist/stale_or_wrong_legacy_serialisation" + tag)
        elif what == "clone":
            c = t.clone()
            require(c.serialize() == txser.serialize(tx) and c.id() == want_id.hex(), "objhist/clone_differs" + tag)
        elif what == "reparse":
            back = Tx.parse(BytesIO(t.serialize()))
            compare_fields(back, tx, "objhist/reparse" + tag)
    ctx.nontrivial(requery)
    ctx.label("query_edit_query" if requery else "plain")
    # nothing of this transaction's history may show up in an unrelated, newly built input
    fresh = TxIn(bytes(32), 0)
    require(len(fresh.witness.items) == 0 and not fresh.script_sig.commands,
            "objhist/new_input_is_not_empty", f"witness={fresh.witness!r} script_sig={fresh.script_sig!r}")


# ---------------------------------------------------------------- fetcher

RESP = ["honest", "honest_ws", "other_tx", "trailing_req_canonical", "trailing_req_rawhash",
        "truncated", "non_hex", "empty", "noncanon_push_req_rawhash", "noncanon_push_req_canonical",
        "noncanon_varint_req_rawhash", "noncanon_varint_req_canonical", "cached_then_lie",
        "witness_swapped"]


class _Resp:
    def __init__(self, body):
        self.body = body

    def read(self):
        return self.body


def noncanon_push(tx):
    """legacy/segwit bytes in which the first direct data push uses OP_PUSHDATA1 (or None)"""
    done = [False]

    def sb(tokens):
        out = b""
        for t in tokens:
            if isinstance(t, int):
                out += bytes([t])
            elif not done[0] and 1 <= len(t) <= 75:
                out += b"\x4c" + bytes([len(t)]) + t
                done[0] = True
            else:
                out += txser.push(t)
        return out

    w = tx["segwit"]
    out = struct.pack("<I", tx["version"]) + (b"\x00\x01" if w else b"")
    out += txser.compact_size(len(tx["ins"]))
    for i in tx["ins"]:
        out += txser.ser_in(i, script=sb(i["script"]))
    out += txser.compact_size(len(tx["outs"]))
    for o in tx["outs"]:
        out += struct.pack("<Q", o["amount"]) + txser.varstr(sb(o["script"]))
    if w:
        out += b"".join(txser.ser_witness(i["witness"]) for i in tx["ins"])
    out += struct.pack("<I", tx["locktime"])
    return out if done[0] else None


def noncanon_varint(tx):
    raw = txser.serialize(tx)
    pos = 6 if tx["segwit"] else 4
    n = raw[pos]
    if n >= 0xFD:
        return None
    return raw[:pos] + b"\xfd" + bytes([n, 0]) + raw[pos + 1:]


def fetch_strategy(tier):
    return st.fixed_dictionaries(
        {
            "tx": txgen.transactions(allow_big_counts=False),
            "tx2": txgen.transactions(allow_big_counts=False),
            "kind": st.sampled_from(RESP),
            "extra": st.binary(min_size=1, max_size=8),
            "cut": st.integers(1, 60),
            "network": st.sampled_from(["mainnet", "testnet", "signet"]),
            "wit": txgen.witness_stack().filter(lambda w: len(w) > 0),
        }
    )


def check_fetch(case, ctx):
    tx, tx2, kind = norm(case["tx"]), norm(case["tx2"]), case["kind"]
    ctx.label("resp:" + kind)
    ctx.nontrivial(kind not in ("honest",))
    raw = txser.serialize(tx)
    canonical_id = txser.txid(tx).hex()
    requested = canonical_id
    must_succeed = False
    if kind == "honest":
        body = raw.hex()
        must_succeed = True
    elif kind == "honest_ws":
        body = "  " + raw.hex() + "\n"
        must_succeed = True
    elif kind == "other_tx":
        if txser.txid(tx2) == txser.txid(tx):
            raise Discard("same tx")
        body = txser.serialize(tx2).hex()
    elif kind.startswith("trailing"):
        blob = raw + case["extra"]
        body = blob.hex()
        if kind.endswith("rawhash"):
            requested = txser.sha256d(blob)[::-1].hex()
    elif kind == "truncated":
        body = raw[: max(1, len(raw) - case["cut"])].hex()
    elif kind == "non_hex":
        body = raw.hex()[:-2] + "zz"
    elif kind == "empty":
        body = ""
    elif kind.startswith("noncanon"):
        blob = noncanon_push(tx) if "push" in kind else noncanon_varint(tx)
        if blob is None:
            raise Discard("no small push / big count")
        body = blob.hex()
        if kind.endswith("rawhash"):
            # what a legacy-hash of the wire bytes would be (the 'real' id of such an encoding)
            requested = txser.sha256d(blob)[::-1].hex()
    elif kind == "witness_swapped":
        # same non-witness data, different witness: still the requested transaction
        tw = dict(tx, segwit=True, ins=[dict(i) for i in tx["ins"]])
        tw["ins"][0]["witness"] = [bytes(x) for x in case["wit"]]
        body = txser.serialize(tw).hex()
    elif kind == "cached_then_lie":
        body = raw.hex()
    else:
        raise AssertionError(kind)
    TxFetcher.cache.clear()
    orig = btx.urlopen
    served = [body]
    btx.urlopen = lambda req: _Resp(served[0].encode("utf-8"))
    try:
        st_, got = attempt(TxFetcher.fetch, requested, network=case["network"], fresh=True)
        if st_ == "ok":
            require(isinstance(got, Tx), "fetch/not_a_tx")
            actual = txser.sha256d(got.serialize_legacy())[::-1].hex()
            require(actual == requested and got.id() == requested,
                    f"fetch/returned_tx_hashes_to_other_id:{kind}",
                    f"requested={requested} got={actual} body={body[:300]}")
            ctx.label("returned")
        else:
            ctx.label("raised")
            require(not must_succeed, "fetch/honest_response_rejected",
                    f"{type(got).__name__}: {got}")
        if kind == "cached_then_lie" and st_ == "ok":
            # the server now lies for a different id, and for the cached id
            other = txser.txid(tx2).hex()
            if other != requested:
                st2, got2 = attempt(TxFetcher.fetch, other, network=case["network"])
                require(st2 == "exc", "fetch/lie_accepted_after_cache",
                        f"requested={other} got={getattr(got2, 'id', lambda: None)()}")
            served[0] = txser.serialize(tx2).hex()
            st3, got3 = attempt(TxFetcher.fetch, requested, network=case["network"])
            require(st3 == "ok" and got3.id() == requested, "fetch/cache_corrupted")
            st4, got4 = attempt(TxFetcher.fetch, requested, network=case["network"], fresh=True)
            require(st4 == "exc" or got4.id() == requested, "fetch/fresh_lie_accepted")
            st5, got5 = attempt(TxFetcher.fetch, requested, network=case["network"])
            require(st5 == "exc" or got5.id() == requested, "fetch/cache_poisoned_by_failed_fetch")
    finally:
        btx.urlopen = orig
        TxFetcher.cache.clear()


def tx_strategy(tier):
    return st.fixed_dictionaries({"tx": txgen.transactions()})


# ------------------------------------------------------------------ byte fuzzing

FUZZ_SEEDS = [
    # the block-170 transaction (legacy) and a BIP143 example (segwit), both from public documentation
    "0100000001c997a5e56e104102fa209c6a852dd90660a20b2d9c352423edce25857fcd3704000000004847304402204e45e1"
    "6932b8af514961a1d3a1a25fdf3f4f7732e9d624c6c61548ab5fb8cd410220181522ec8eca07de4860a4acdd12909d831cc5"
    "6cbbac4622082221a8768d1d0901ffffffff0200ca9a3b00000000434104ae1a62fe09c5f51b13905f07f06b99a2f7159b22"
    "25f374cd378d71302fa28414e7aab37397f554a7df5f142c21c1b7303b8a0626f1baded5c72a704f7e6cd84cac00286bee00"
    "00000043410411db93e1dcdb8a016b49840f8c53bc1eb68a382e97b1482ecad7b148a6909a5cb2e0eaddfb84ccf9744464f8"
    "2e160bfa9b8b64f9d4c03f999b8643f656b412a3ac00000000",
    "01000000000102fff7f7881a8099afa6940d42d1e7f6362bec38171ea3edf433541db4e4ad969f00000000494830450221008b"
    "9d1dc26ba6a9cb62127b02742fa9d754cd3bebf337f7a55d114c8e5cdd30be022040529b194ba3f9281a99f2b1c0a19c0489"
    "bc22ede944ccf4ecbab4cc618ef3ed01eeffffffef51e1b804cc89d182d279655c3aa89e815b1b309fe287d9b2b55d57b90e"
    "c68a0100000000ffffffff02202cb206000000001976a9148280b37df378db99f66f85c95a783a76ac7a6d5988ac9093510d"
    "000000001976a9143bde42dbee7e4dbe6a21b2d50ce2f0167faa815988ac000247304402203609e17b84f6a7d30c80bfa610"
    "b5b4542f32a8a0d5447a12fb1366d7f01cc44a0220573a954c4518331561406f90300e8f3358f51928d43c212a8caed02de6"
    "7eebee0121025476c2e83188368da1ff3e292e7acafcdb3566bb0ad253f62fc70f07aeee635711000000",
]


def fuzz_seeds(tier):
    out = [bytes.fromhex(h) for h in FUZZ_SEEDS]
    out.append(txser.serialize({"version": 2, "segwit": False, "locktime": 0, "ins": [
        {"prev_tx": bytes(32), "prev_index": 0, "script": [b"\x01" * 75, 0x51], "sequence": 0, "witness": []}],
        "outs": [{"amount": 1, "script": [b"\x02" * 76, b"\x03" * 256]}]}))
    return out


def check_fuzz_parse(case, ctx):
    """arbitrary bytes: whatever Tx.parse accepts must re-serialise to a fixpoint of parse/serialise,
    keep its id across that round trip and consume no more than the input"""
    data = case["data"]
    s = BytesIO(data)
    st_, t = attempt(Tx.parse, s)
    if st_ == "exc":
        ctx.label("rejected")
        return
    ctx.label("parsed")
    if len(t.tx_ins) == 0:
        # only reachable through a non-canonical varint (fd0000): a 0-input transaction has no
        # unambiguous encoding (its bytes collide with the BIP144 marker) and is outside the property
        ctx.label("zero_inputs_out_of_domain")
        return
    st_, out = attempt(t.serialize)
    if st_ == "exc":
        # accepted by the parser but not serialisable: only allowed for pushes > 520 bytes (out of domain)
        require("too long" in str(out), "fuzz/parsed_tx_cannot_be_serialised", f"{type(out).__name__}: {out}")
        ctx.label("oversize_push")
        return
    ctx.nontrivial(len(t.tx_ins) > 0)
    t2 = must(Tx.parse, "fuzz/reparse_of_own_serialisation", BytesIO(out))
    out2 = must(t2.serialize, "fuzz/reserialise")
    require(out2 == out, "fuzz/serialisation_is_not_a_fixpoint", f"{data.hex()[:200]}")
    require(t2.id() == t.id(), "fuzz/id_changes_across_roundtrip")
    require(t.id() == txser.sha256d(t.serialize_legacy())[::-1].hex(), "fuzz/id_is_not_hash_of_stripped")
    if out == data[: len(out)] and s.tell() == len(out):
        ctx.label("canonical_input")


PUSH_CLASSES = [f"push{n}" for n in (74, 75, 76, 77, 255, 256, 257, 519, 520)]
SUBS = [
    Sub("bytes_roundtrip", check_bytes, strategy=tx_strategy,
        budget={"quick": 12000, "thorough": 400000},
        required=PUSH_CLASSES + ["count>=253", "count=252", "segwit", "legacy", "no_outputs",
                                 "witness_item>=65536", "witness_item>=253", "witness_item_empty"],
        nontrivial_rule="tx with a push >= 75 bytes, a count >= 253, an empty witness item or an opcode-only script"),
    Sub("api_roundtrip", check_api, strategy=tx_strategy,
        budget={"quick": 12000, "thorough": 400000}, required=PUSH_CLASSES + ["count>=253"],
        nontrivial_rule="same as bytes_roundtrip"),
    Sub("txid_metamorphic", check_meta, strategy=meta_strategy,
        budget={"quick": 6000, "thorough": 200000},
        required=["field:" + f for f in NONWIT_FIELDS] + ["witness_change"]),
    Sub("fuzz_parse_fixpoint", check_fuzz_parse, kind="fuzz", seeds=fuzz_seeds, max_len=2048,
        budget={"quick": 6000, "thorough": 1600000}, required=["parsed", "rejected"],
        nontrivial_rule="input accepted by Tx.parse with at least one input",
        doc="quick: Hypothesis byte-level mutations of seed transactions; thorough: atheris (libFuzzer) "
            "coverage-guided campaign, oracle inside the target"),
    Sub("object_history", check_objhist, strategy=objhist_strategy, stateful=True,
        budget={"quick": 8000, "thorough": 200000},
        required=["edit:" + e for e in HIST_EDITS] + ["query_edit_query"],
        nontrivial_rule="history in which the same Tx object is queried, edited and queried again"),
    Sub("fetcher_integrity", check_fetch, strategy=fetch_strategy,
        budget={"quick": 8000, "thorough": 200000},
        required=["resp:" + r for r in RESP] + ["returned", "raised"],
        nontrivial_rule="every response class other than the honest one"),
]
