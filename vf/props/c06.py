"""C06 input verification: library-signed spends verify; nothing unauthorised ever does."""
import hashlib

from hypothesis import strategies as st

from buidl.pecc import PrivateKey, S256Point
from buidl.script import RedeemScript, Script, WitnessScript
from buidl.taproot import MultiSigTapScript, P2PKTapScript, TapBranch
from buidl.timelock import Locktime, Sequence
from buidl.tx import Tx, TxIn, TxOut
from buidl.witness import Witness

from vf import gen, txgen
from vf.core import CaseTimeout, Discard, Sub, attempt, require, time_limit
from vf.ref import ec

RULE = (
    "signed_spends_verify: for each of 10 output types a spend built and signed only through the "
    "library must verify; unauthorised_never_verifies: a valid spend plus one mutation from a typed "
    "catalogue, each of which removes authorisation by construction; no_signature_no_spend: "
    "scriptSigs/witnesses generated from a grammar of pushes (incl. the genuine scripts, control "
    "blocks, keys, annex-like items, signatures by foreign keys) and non-signature opcodes. "
    "Non-trivial: every negative case; positive cases with m-of-n, n >= 2 or >1 input."
)
ASSUMPTIONS = [
    "private keys are instantiated with the public point computed by the reference implementation "
    "(saves one 34 ms scalar multiplication per key; C03 checks that multiplication separately)",
    "a library call that does not terminate within 20 s is counted as 'not accepted' (label timeout), "
    "never as a violation",
]

TYPES = ["p2pkh", "p2pkh_uncompressed", "p2sh_multisig", "p2wpkh", "p2sh_p2wpkh", "p2wsh_multisig",
         "p2sh_p2wsh_multisig", "p2tr_key", "p2tr_key_root", "p2tr_script_p2pk", "p2tr_script_multisig"]
MULTI = ("p2sh_multisig", "p2wsh_multisig", "p2sh_p2wsh_multisig", "p2tr_script_multisig")
SEGWIT = ("p2wpkh", "p2sh_p2wpkh", "p2wsh_multisig", "p2sh_p2wsh_multisig", "p2tr_key", "p2tr_key_root",
          "p2tr_script_p2pk", "p2tr_script_multisig")
TAPROOT = ("p2tr_key", "p2tr_key_root", "p2tr_script_p2pk", "p2tr_script_multisig")
TAPSCRIPT = ("p2tr_script_p2pk", "p2tr_script_multisig")


def selftest():
    ec.ensure_selftest()


def fast_priv(secret, compressed=True):
    p = PrivateKey.__new__(PrivateKey)
    p.secret = secret
    p.point = S256Point(*ec.mul(secret))
    p.network = "mainnet"
    p.compressed = compressed
    return p


def h160(b):
    return hashlib.new("ripemd160", hashlib.sha256(b).digest()).digest()


_TYPE_CHOICE = gen.choice(TYPES)
_MUT_INDEX = gen.uniform_int(0, 10**9)


@st.composite
def base_case(draw, types=TYPES, typ=None):
    if typ is None:
        typ = draw(_TYPE_CHOICE) if types is TYPES else draw(st.sampled_from(types))
    n = draw(st.integers(1, 5)) if typ in MULTI else 1
    m = draw(st.integers(1, n))
    secrets = draw(st.lists(gen.uniform_int(1, ec.N - 1), min_size=7, max_size=7, unique=True))
    n_in = draw(st.integers(1, 3))
    return {
        "type": typ, "m": m, "n": n, "secrets": secrets,
        "signers": draw(st.permutations(list(range(n))))[:m],
        "n_in": n_in, "idx": draw(st.integers(0, n_in - 1)),
        "n_out": draw(st.integers(1, 3)),
        "version": draw(st.sampled_from([1, 2, 0, 0xFFFFFFFF])),
        "locktime": draw(txgen.u32()),
        "seq": draw(st.lists(txgen.u32(), min_size=3, max_size=3)),
        "amounts": draw(st.lists(st.integers(0, 2**40), min_size=3, max_size=3)),
        "spent_amount": draw(st.integers(0, 2**50)),
        "prev": draw(st.binary(min_size=32, max_size=32)),
        "root": draw(gen.rand_bytes(32)),
        "tap_ht": draw(st.sampled_from([0, 0, 1, 2, 3, 0x81, 0x82, 0x83])),
        "extra_leaf": draw(st.booleans()),
        # BIP341 annex the signatures commit to (taproot key path / p2pk leaf only: those are signed
        # through get_sig_taproot, which reads the annex from the witness)
        "annex": draw(st.one_of(st.none(), st.none(), st.binary(max_size=12).map(lambda b: b"\x50" + b))),
        # m-of-n: every cosigner may pick a signature-hash type of his own (consensus checks each signature
        # against the digest of ITS type)
        "mixed_ht": draw(st.sampled_from([False, False, True])),
        "hts": draw(st.lists(st.sampled_from([1, 1, 2, 3, 0x81, 0x82, 0x83]), min_size=5, max_size=5)),
        "tap_hts": draw(st.lists(st.sampled_from([0, 0, 1, 2, 3, 0x81, 0x82, 0x83]), min_size=5, max_size=5)),
    }


class Spend:
    """A spend of one output type, built and signed through the library."""

    def __init__(self, case):
        self.case = case
        typ = self.typ = case["type"]
        secrets = case["secrets"]
        self.m, self.n = case["m"], case["n"]
        self.privs = [fast_priv(s, compressed=(typ != "p2pkh_uncompressed")) for s in secrets[: self.n]]
        self.foreign = fast_priv(secrets[5])
        self.foreign2 = fast_priv(secrets[6])
        self.idx = case["idx"]
        self.redeem = self.wscript = self.leaf = self.tree = self.internal = None
        self.cb = None
        self.tap_script = None
        self.merkle_root = b""
        self.spk = self._make_spk()
        self.tx = self._make_tx()

    # -- output
    def _multisig_cmds(self, privs, m):
        secs = sorted(p.point.sec() for p in privs)
        return [0x50 + m] + secs + [0x50 + len(secs), 0xAE]

    def _make_spk(self):
        typ, p0 = self.typ, self.privs[0]
        if typ in ("p2pkh", "p2pkh_uncompressed"):
            return p0.point.p2pkh_script(compressed=p0.compressed)
        if typ == "p2wpkh":
            return p0.point.p2wpkh_script()
        if typ == "p2sh_p2wpkh":
            self.redeem = p0.point.p2sh_p2wpkh_redeem_script()
            return self.redeem.script_pubkey()
        if typ == "p2sh_multisig":
            self.redeem = RedeemScript(self._multisig_cmds(self.privs, self.m))
            return self.redeem.script_pubkey()
        if typ == "p2wsh_multisig":
            self.wscript = WitnessScript(self._multisig_cmds(self.privs, self.m))
            return self.wscript.script_pubkey()
        if typ == "p2sh_p2wsh_multisig":
            self.wscript = WitnessScript(self._multisig_cmds(self.privs, self.m))
            self.redeem = self.wscript.script_pubkey().redeem_script()
            return self.redeem.script_pubkey()
        if typ == "p2tr_key":
            return p0.point.p2tr_script()
        if typ == "p2tr_key_root":
            self.merkle_root = self.case["root"]
            return p0.point.p2tr_script(self.merkle_root)
        # script paths: the internal key belongs to nobody we sign with
        self.internal = self.foreign2.point
        if typ == "p2tr_script_p2pk":
            self.tap_script = P2PKTapScript(p0.point)
        else:
            self.tap_script = MultiSigTapScript([p.point for p in self.privs], self.m)
        self.leaf = self.tap_script.tap_leaf()
        if self.case.get("mut") == "sibling_leaf_same_keys":
            # a second leaf of the SAME tree that accepts the same witness stack (same keys and threshold,
            # plus a locktime the transaction satisfies): signatures made for one leaf must not spend the other
            from buidl.timelock import Locktime as _Lt

            self.sibling_script = MultiSigTapScript([p.point for p in self.privs], self.m, locktime=_Lt(5))
            self.sibling = self.sibling_script.tap_leaf()
            self.tree = TapBranch(self.leaf, self.sibling)
        elif self.case["extra_leaf"]:
            other = P2PKTapScript(self.foreign.point).tap_leaf()
            self.tree = TapBranch(self.leaf, other)
        else:
            self.tree = self.leaf
        self.merkle_root = self.tree.hash()
        self.cb = self.tree.control_block(self.internal, self.leaf)
        return self.internal.p2tr_script(self.merkle_root)

    def _make_tx(self):
        c = self.case
        ins = []
        for i in range(c["n_in"]):
            prev = bytes([i]) + c["prev"][1:]
            seq = c["seq"][i]
            if c.get("mut") == "sibling_leaf_same_keys" and i == self.idx:
                seq = 0  # not final, so that the sibling leaf's CHECKLOCKTIMEVERIFY is satisfied
            ti = TxIn(prev, i, Script(), seq)
            if i == self.idx:
                ti._value = c["spent_amount"]
                ti._script_pubkey = self.spk
            else:
                ti._value = 1000 + i
                ti._script_pubkey = Script([0x76, 0xA9, bytes([i]) * 20, 0x88, 0xAC])
            ins.append(ti)
        outs = [TxOut(c["amounts"][j], Script([0x76, 0xA9, bytes([j + 9]) * 20, 0x88, 0xAC]))
                for j in range(c["n_out"])]
        locktime = 100 if c.get("mut") == "sibling_leaf_same_keys" else c["locktime"]
        return Tx(c["version"], ins, outs, locktime, segwit=self.typ in SEGWIT)

    # -- signing through the library
    def signer_privs(self):
        """the m signing keys in the order their keys appear in the script"""
        chosen = [self.privs[i] for i in self.case["signers"][: self.m]]
        if self.typ == "p2tr_script_multisig":
            return chosen
        return sorted(chosen, key=lambda p: p.point.sec())

    def own_ht(self, priv, taproot=False):
        """the signature-hash type this cosigner uses (None: the library's default route)"""
        if not self.case.get("mixed_ht") or self.typ not in MULTI:
            return None
        secrets = [p.secret for p in self.privs]
        if priv.secret not in secrets:
            return None  # a key outside the script (negative cases): default route
        i = secrets.index(priv.secret)
        ht = self.case["tap_hts" if taproot else "hts"][i]
        if ht & 3 == 3 and self.idx >= self.case["n_out"]:
            ht = (ht & 0x80) | 1  # SINGLE without a matching output: this cosigner uses ALL instead
        return ht

    def ecdsa_sig(self, priv, tx=None):
        tx = tx or self.tx
        ht = self.own_ht(priv)
        if ht is not None and tx is self.tx:
            if self.typ == "p2sh_multisig":
                z = tx.sig_hash_legacy(self.idx, self.redeem, ht)
            else:
                z = tx.sig_hash_bip143(self.idx, witness_script=self.wscript, hash_type=ht)
            return priv.sign(z).der() + bytes([ht])
        if self.typ in ("p2pkh", "p2pkh_uncompressed"):
            return tx.get_sig_legacy(self.idx, priv)
        if self.typ == "p2sh_multisig":
            return tx.get_sig_legacy(self.idx, priv, redeem_script=self.redeem)
        if self.typ == "p2wpkh":
            return tx.get_sig_segwit(self.idx, priv)
        if self.typ == "p2sh_p2wpkh":
            return tx.get_sig_segwit(self.idx, priv, redeem_script=self.redeem)
        return tx.get_sig_segwit(self.idx, priv, witness_script=self.wscript)

    def sign(self):
        """returns what the library's signing call returned (it re-verifies itself)"""
        typ, tx, idx = self.typ, self.tx, self.idx
        tin = tx.tx_ins[idx]
        p0 = self.privs[0]
        if typ in ("p2pkh", "p2pkh_uncompressed"):
            return tx.sign_p2pkh(idx, p0)
        if typ == "p2wpkh":
            return tx.sign_input(idx, p0)
        if typ == "p2sh_p2wpkh":
            return tx.sign_p2sh_p2wpkh(idx, p0)
        if typ == "p2sh_multisig":
            sigs = [self.ecdsa_sig(p) for p in self.signer_privs()]
            tin.finalize_p2sh_multisig(sigs, self.redeem)
            return None
        if typ == "p2wsh_multisig":
            sigs = [self.ecdsa_sig(p) for p in self.signer_privs()]
            tin.finalize_p2wsh_multisig(sigs, self.wscript)
            return None
        if typ == "p2sh_p2wsh_multisig":
            sigs = [self.ecdsa_sig(p) for p in self.signer_privs()]
            tin.finalize_p2sh_p2wsh_multisig(sigs, self.wscript)
            return None
        annex = self.case.get("annex")
        if typ in ("p2tr_key", "p2tr_key_root"):
            tweaked = p0.tweaked_key(self.merkle_root)
            if annex is not None:
                # the annex is in the witness while the digest is computed, hence committed to
                tin.witness = Witness([bytes(64), bytes(annex)])
                sig = tx.get_sig_taproot(idx, tweaked, hash_type=self.case["tap_ht"])
                tin.witness = Witness([sig, bytes(annex)])
                return None
            return tx.sign_p2tr_keypath(idx, tweaked, hash_type=self.case["tap_ht"])
        if typ == "p2tr_script_p2pk":
            tin.witness = Witness([self.tap_script.raw_serialize(), self.cb.serialize()]
                                  + ([bytes(annex)] if annex is not None else []))
            sig = tx.get_sig_taproot(idx, p0, ext_flag=1, hash_type=self.case["tap_ht"])
            tin.witness.items.insert(0, sig)
            return None
        if typ == "p2tr_script_multisig":
            tx.initialize_p2tr_multisig(idx, self.cb, self.tap_script)
            chosen = {p.secret for p in self.signer_privs()}
            sigs = [tx.get_sig_taproot(idx, p, ext_flag=1, hash_type=self.own_ht(p, taproot=True) or 0)
                    if p.secret in chosen else b"" for p in self.privs]
            return tx.finalize_p2tr_multisig(idx, sigs)
        raise AssertionError(typ)

    def tap_sig(self, priv, hash_type=0, tx=None):
        tx = tx or self.tx
        ext = 1 if self.typ in TAPSCRIPT else 0
        return tx.get_sig_taproot(self.idx, priv, ext_flag=ext, hash_type=hash_type)


def tap_ok(case):
    """SIGHASH_SINGLE needs a matching output"""
    if case["type"] in ("p2tr_key", "p2tr_key_root", "p2tr_script_p2pk"):
        if case["tap_ht"] & 3 == 3 and case["idx"] >= case["n_out"]:
            return False
    return True


def check_signed(case, ctx):
    if not tap_ok(case):
        raise Discard("taproot SINGLE without matching output")
    sp = Spend(case)
    ctx.label("type:" + sp.typ)
    if sp.typ in MULTI:
        ctx.label(f"m={sp.m},n={sp.n}")
    ctx.nontrivial(sp.n >= 2 or case["n_in"] > 1)
    if case.get("mixed_ht") and sp.typ in MULTI:
        used = {sp.own_ht(p, taproot=sp.typ in TAPROOT) for p in sp.signer_privs()}
        if len(used) >= 2:
            ctx.label("cosigners_use_different_sighash_types")
            ctx.label("mixed_sighash:" + ("tapscript" if sp.typ in TAPROOT else "ecdsa"))
    st_, r = attempt(sp.sign)
    require(st_ == "ok", f"signed/{sp.typ}:signing_raises", f"{type(r).__name__}: {r}")
    require(r is None or r is True, f"signed/{sp.typ}:sign_call_reports_invalid", repr(r))
    with time_limit(120):
        st_, ok = attempt(sp.tx.verify_input, sp.idx)
    if st_ == "exc" and isinstance(ok, CaseTimeout):
        raise Discard("verification did not finish within 120 s (overloaded machine): inconclusive")
    require(st_ == "ok" and ok is True, f"signed/{sp.typ}:valid_spend_rejected",
            f"{st_}:{ok!r} m={sp.m} n={sp.n} n_in={case['n_in']} idx={sp.idx}")
    if case.get("annex") is not None and sp.typ in ("p2tr_key", "p2tr_key_root", "p2tr_script_p2pk"):
        ctx.label("annex_committed")
        # the verdict is about the transaction, not about how often it was asked for
        st_, ok = attempt(sp.tx.verify_input, sp.idx)
        require(st_ == "ok" and ok is True, f"signed/{sp.typ}:valid_spend_rejected_on_second_verification")
    # the signed transaction survives its own wire codec and still verifies
    t2 = sp.tx.clone()
    st_, ok = attempt(t2.verify_input, sp.idx)
    require(st_ == "ok" and ok is True, f"signed/{sp.typ}:clone_rejected")


# ------------------------------------------------------------------ mutations

FIELD_MUTS = ["out_amount", "out_script", "prev_index", "prev_tx", "sequence", "locktime", "version",
              "add_output", "drop_output"]
SIG_MUTS = ["foreign_sig", "other_tx_sig", "junk_der", "flip_sighash_byte", "drop_sig", "empty_sig"]
MUTS = {}
for _t in TYPES:
    ms = list(FIELD_MUTS) + list(SIG_MUTS)
    if _t in SEGWIT:
        ms.append("spent_amount")
    if _t in MULTI:
        ms += ["dup_sig", "reorder_sigs", "all_foreign_sigs"]
    if _t in ("p2pkh", "p2pkh_uncompressed", "p2wpkh", "p2sh_p2wpkh"):
        ms += ["wrong_pubkey", "foreign_key_and_sig"]
    if _t in ("p2sh_multisig", "p2sh_p2wpkh", "p2wsh_multisig", "p2sh_p2wsh_multisig"):
        ms += ["swap_script_foreign_signed"]
    if _t in SEGWIT:
        ms += ["truncate_witness", "scriptsig_junk"]
    if _t in TAPSCRIPT:
        ms += ["cb_flip_parity", "cb_other_internal", "cb_alter_path", "leaf_swap_foreign_signed",
               "leaf_version"]
    if _t == "p2tr_script_multisig":
        ms += ["sibling_leaf_same_keys", "sibling_leaf_same_keys"]
    if _t in ("p2tr_key", "p2tr_key_root"):
        ms += ["untweaked_key_sig", "wrong_root_sig"]
    if _t in ("p2pkh", "p2pkh_uncompressed", "p2sh_multisig"):
        ms += ["witness_smuggled_for_foreign_key"]
    if _t in TAPROOT:
        ms += ["annex_added_after_signing"]
    if _t in ("p2tr_key", "p2tr_key_root", "p2tr_script_p2pk"):
        ms += ["annex_changed", "annex_removed"]
    MUTS[_t] = ms
ALL_MUTS = sorted({m for v in MUTS.values() for m in v})
_MUT_CHOICE = gen.choice(ALL_MUTS)


@st.composite
def mut_case(draw):
    # the mutation is chosen first (uniformly over the catalogue), then a type that supports it, so that
    # mutations which only a few output types admit are not starved
    mut = draw(_MUT_CHOICE)
    types_for = [t for t in TYPES if mut in MUTS[t]]
    c = draw(base_case(typ=types_for[draw(_MUT_INDEX) % len(types_for)]))
    c["mut"] = mut
    c["delta"] = draw(st.integers(1, 2**31))
    c["which"] = draw(st.integers(0, 7))
    return c


JUNK_DER = bytes.fromhex("3006020101020101")


def sig_slots(sp):
    """(container, positions) of the signatures inside the signed input"""
    tin = sp.tx.tx_ins[sp.idx]
    typ = sp.typ
    if typ in ("p2pkh", "p2pkh_uncompressed"):
        return tin.script_sig.commands, [0]
    if typ == "p2sh_multisig":
        return tin.script_sig.commands, list(range(1, 1 + sp.m))
    if typ in ("p2wpkh", "p2sh_p2wpkh"):
        return tin.witness.items, [0]
    if typ in ("p2wsh_multisig", "p2sh_p2wsh_multisig"):
        return tin.witness.items, list(range(1, 1 + sp.m))
    if typ in ("p2tr_key", "p2tr_key_root", "p2tr_script_p2pk"):
        return tin.witness.items, [0]
    # tapscript multisig: n slots, non-empty ones are signatures
    items = tin.witness.items
    return items, [i for i in range(sp.n) if len(items[i]) > 0]


def check_mutated(case, ctx):
    if not tap_ok(case):
        raise Discard("taproot SINGLE without matching output")
    mut = case["mut"]
    if mut in ("annex_changed", "annex_removed") and case.get("annex") is None:
        case = dict(case, annex=b"\x50" + bytes([case["which"]]))
    if mut == "annex_added_after_signing":
        case = dict(case, annex=None)
    # the mutation catalogue is written against signatures of type ALL / DEFAULT (which commit to everything)
    case = dict(case, mixed_ht=False)
    sp = Spend(case)
    typ, tx, idx = sp.typ, sp.tx, sp.idx
    if mut in ("dup_sig", "reorder_sigs") and sp.m < 2:
        raise Discard("needs m >= 2")
    ctx.label(f"{typ}|{mut}")
    ctx.label("mut:" + mut)
    ctx.nontrivial()
    sp.sign()
    try:
        with time_limit(120):
            base_ok = tx.verify_input(idx)
    except CaseTimeout:
        raise Discard("verification did not finish within 120 s (overloaded machine): inconclusive")
    require(base_ok is True, f"mutated/{typ}:baseline_invalid")
    tin = tx.tx_ins[idx]
    d, w = case["delta"], case["which"]
    taproot = typ in TAPROOT
    with_annex = case.get("annex") is not None and typ in ("p2tr_key", "p2tr_key_root", "p2tr_script_p2pk")
    slots, pos = sig_slots(sp)
    p = pos[w % len(pos)]

    def foreign_sig(priv, txx=None):
        if taproot:
            return sp.tap_sig(priv, tx=txx)
        return sp.ecdsa_sig(priv, tx=txx)

    # what the chosen taproot hash type does not commit to cannot be a mutation
    base_ht = case["tap_ht"] & 3 if typ in ("p2tr_key", "p2tr_key_root", "p2tr_script_p2pk") else 1
    if mut in ("out_amount", "out_script", "add_output", "drop_output"):
        if base_ht == 2:
            raise Discard("SIGHASH_NONE does not commit to outputs")
        if base_ht == 3:
            if mut in ("add_output", "drop_output"):
                raise Discard("SIGHASH_SINGLE does not commit to the other outputs")
            w = idx  # only the matching output is committed
    if mut == "out_amount":
        o = tx.tx_outs[w % len(tx.tx_outs)]
        o.amount = (o.amount + d) % 2**63
    elif mut == "out_script":
        tx.tx_outs[w % len(tx.tx_outs)].script_pubkey = Script([0x51, d.to_bytes(4, "big")])
    elif mut == "add_output":
        tx.tx_outs.append(TxOut(d, Script([0x51])))
    elif mut == "drop_output":
        del tx.tx_outs[-1]
    elif mut == "prev_index":
        tin.prev_index = (tin.prev_index + d) % 2**32
    elif mut == "prev_tx":
        b = bytearray(tin.prev_tx)
        b[w % 32] ^= 1 + d % 255
        tin.prev_tx = bytes(b)
    elif mut == "sequence":
        tin.sequence = Sequence((tin.sequence + d) % 2**32)
    elif mut == "locktime":
        tx.locktime = Locktime((tx.locktime + d) % 2**32)
    elif mut == "version":
        tx.version = (tx.version + d) % 2**32
    elif mut == "spent_amount":
        tin._value = tin._value + d
    elif mut == "foreign_sig":
        slots[p] = foreign_sig(sp.foreign)
    elif mut == "all_foreign_sigs":
        for q in pos:
            slots[q] = foreign_sig(sp.foreign)
    elif mut == "other_tx_sig":
        t2 = tx.clone()
        t2.version = (t2.version + 1) % 2**32
        if taproot and typ in TAPSCRIPT:
            # tap script and control block (and the committed annex, if any) without the signatures
            keep = 3 if with_annex else 2
            t2.tx_ins[idx].witness = Witness(list(tin.witness.items[-keep:]))
        signer = sp.signer_privs()[0] if typ in MULTI else sp.privs[0]
        if typ in ("p2tr_key", "p2tr_key_root"):
            signer = signer.tweaked_key(sp.merkle_root)
        if typ == "p2tr_script_multisig":
            # find the slot that belongs to this signer
            xs = [pt.xonly() for pt in sp.tap_script.points]
            slot = len(xs) - 1 - xs.index(signer.point.xonly())
            if len(slots[slot]) == 0:
                raise Discard("slot empty")
            p = slot
        slots[p] = foreign_sig(signer, t2)
        if typ in MULTI and typ != "p2tr_script_multisig":
            slots[pos[0]] = foreign_sig(signer, t2)
    elif mut == "junk_der":
        slots[p] = (JUNK_DER + b"\x01") if not taproot else bytes(64)
    elif mut == "flip_sighash_byte":
        s = slots[p]
        if taproot:
            if len(s) == 64:
                s = s + b"\x01"
            else:
                s = s[:-1] + bytes([{1: 2, 2: 3, 3: 1, 0x81: 1, 0x82: 0x81, 0x83: 0x82}[s[-1]]])
        else:
            s = s[:-1] + bytes([(2, 3, 0x81, 0x82, 0x83)[w % 5]])
        slots[p] = s
    elif mut == "drop_sig":
        if typ == "p2tr_script_multisig":
            slots[p] = b""
        else:
            del slots[p]
    elif mut == "empty_sig":
        slots[p] = b""
    elif mut == "dup_sig":
        q = pos[(w + 1) % len(pos)]
        if q == p:
            q = pos[(pos.index(p) + 1) % len(pos)]
        slots[q] = slots[p]
    elif mut == "reorder_sigs":
        vals = [slots[q] for q in pos]
        for q, v in zip(pos, reversed(vals)):
            slots[q] = v
    elif mut == "wrong_pubkey":
        slots[1] = sp.foreign.point.sec()
    elif mut == "foreign_key_and_sig":
        slots[0] = foreign_sig(sp.foreign)
        slots[1] = sp.foreign.point.sec()
    elif mut == "swap_script_foreign_signed":
        # the attacker presents a script of the same shape over keys he controls, properly signed
        att = [sp.foreign, sp.foreign2][: max(1, min(2, sp.n))]
        if typ == "p2sh_p2wpkh":
            red = sp.foreign.point.p2sh_p2wpkh_redeem_script()
            sig = tx.get_sig_segwit(idx, sp.foreign, redeem_script=red)
            tin.finalize_p2wpkh(sig, sp.foreign.point.sec(), red)
        else:
            cmds = sp._multisig_cmds(att, 1)
            if typ == "p2sh_multisig":
                red = RedeemScript(cmds)
                tin.finalize_p2sh_multisig([tx.get_sig_legacy(idx, att[0], redeem_script=red)], red)
            else:
                ws = WitnessScript(cmds)
                sig = tx.get_sig_segwit(idx, att[0], witness_script=ws)
                if typ == "p2wsh_multisig":
                    tin.finalize_p2wsh_multisig([sig], ws)
                else:
                    tin.finalize_p2sh_p2wsh_multisig([sig], ws)
    elif mut == "truncate_witness":
        if w % 2 and len(tin.witness.items) > 1:
            del tin.witness.items[0]
        else:
            del tin.witness.items[-1]
    elif mut == "scriptsig_junk":
        junk = [[0x51], [b"\x01"], [0x51, 0x51], [b"\x00" * 20], [0x00]][w % 5]
        tin.script_sig = Script(junk + list(tin.script_sig.commands))
    elif mut in ("cb_flip_parity", "cb_other_internal", "cb_alter_path", "leaf_version"):
        ci = -2 if with_annex else -1
        cb = bytearray(tin.witness.items[ci])
        if mut == "cb_flip_parity":
            cb[0] ^= 1
        elif mut == "leaf_version":
            cb[0] ^= 2 << (w % 7)
        elif mut == "cb_other_internal":
            cb[1:33] = sp.foreign.point.xonly()
        else:
            if len(cb) > 33:
                cb[33 + (d % (len(cb) - 33))] ^= 1 + (d >> 8) % 255
            else:
                cb += bytes(32)
        tin.witness.items[ci] = bytes(cb)
    elif mut == "sibling_leaf_same_keys":
        # keep the signatures, present the sibling leaf (in the tree, honest control block) IN PLACE
        cb2 = sp.tree.control_block(sp.internal, sp.sibling)
        tin.witness.items[-2] = sp.sibling_script.raw_serialize()
        tin.witness.items[-1] = cb2.serialize()
    elif mut == "leaf_swap_foreign_signed":
        ts = P2PKTapScript(sp.foreign.point)
        tin.witness = Witness([ts.raw_serialize(), sp.cb.serialize()])
        sig = tx.get_sig_taproot(idx, sp.foreign, ext_flag=1)
        tin.witness.items.insert(0, sig)
    elif mut == "witness_smuggled_for_foreign_key":
        # the output is NOT a witness program, but the scriptSig starts like one (0 <20 bytes>: the stack
        # pattern of P2WPKH) and the input carries a witness with the attacker's key and his signature over
        # the digest a CHECKSIG in this input would use
        att = sp.foreign
        sig = sp.ecdsa_sig(att)
        prefix = [0, h160(att.point.sec())] if w % 4 else [0, hashlib.sha256(att.point.sec()).digest()]
        tail = [sp.redeem.raw_serialize()] if typ == "p2sh_multisig" else []
        tin.script_sig = Script(prefix + tail)
        tin.witness = Witness([sig, att.point.sec()])
        tx.segwit = True
    elif mut == "annex_added_after_signing":
        # BIP341 signatures commit to the presence and content of the annex
        tin.witness.items.append(b"\x50" + d.to_bytes(4, "big")[: w % 5])
    elif mut == "annex_changed":
        a = tin.witness.items[-1]
        tin.witness.items[-1] = a + b"\x00" if w % 2 else b"\x50" + bytes([(a[1:2] or b"\x00")[0] ^ 1]) + a[2:]
    elif mut == "annex_removed":
        tin.witness.items.pop()
    elif mut == "untweaked_key_sig":
        tin.witness = Witness([tx.get_sig_taproot(idx, sp.privs[0])])
    elif mut == "wrong_root_sig":
        other = sp.privs[0].tweaked_key(hashlib.sha256(sp.merkle_root + b"x").digest())
        tin.witness = Witness([tx.get_sig_taproot(idx, other)])
    else:
        raise AssertionError(mut)
    try:
        with time_limit(20):
            st_, ok = attempt(tx.verify_input, idx)
    except CaseTimeout:
        ctx.label("timeout")
        return
    if st_ == "exc":
        ctx.label("timeout" if isinstance(ok, CaseTimeout) else "rejected_by_exception")
    else:
        ctx.label("rejected_false" if not ok else "ACCEPTED")
    require(not (st_ == "ok" and ok), f"mutated/{typ}:{mut}:accepted",
            f"m={sp.m} n={sp.n} n_in={case['n_in']} idx={idx} scriptsig={tin.script_sig!r} "
            f"witness={tin.witness!r}"[:600])
    # the same unauthorised spend with a true value slipped UNDER everything else on the initial stack: a
    # signature check that fails without leaving its verdict on the stack would now end on that value
    if mut == "truncate_witness":
        return  # the added bottom item would take the place of the removed CHECKMULTISIG dummy: a complete spend
    if typ in ("p2pkh", "p2pkh_uncompressed", "p2sh_multisig"):
        tin.script_sig = Script([b"\x01"] + list(tin.script_sig.commands))
    elif typ in SEGWIT and typ not in ("p2tr_key", "p2tr_key_root"):
        tin.witness.items.insert(0, b"\x01")
    else:
        return
    try:
        with time_limit(20):
            st_, ok = attempt(tx.verify_input, idx)
    except CaseTimeout:
        return
    ctx.label("true_value_under_the_stack")
    require(not (st_ == "ok" and ok), f"mutated/{typ}:{mut}:accepted_with_true_value_under_the_stack",
            f"m={sp.m} n={sp.n} scriptsig={tin.script_sig!r} witness={tin.witness!r}"[:600])


# ----------------------------------------------------------- signature-free grammar

SAFE_OPS = [0, 79, 81, 82, 83, 96, 97, 99, 100, 103, 104, 105, 107, 108, 109, 110, 111, 115, 116, 117,
            118, 119, 120, 123, 124, 125, 130, 135, 136, 139, 145, 146, 147, 154, 155, 166, 167, 168,
            169, 170, 172, 173, 174, 175, 176, 177, 178, 186]


@st.composite
def nosig_case(draw):
    c = draw(base_case())
    item = st.one_of(
        st.tuples(st.just("pool"), st.integers(0, 40)),
        st.tuples(st.just("raw"), st.binary(max_size=40)),
        st.tuples(st.just("raw"), st.sampled_from([b"", b"\x00", b"\x01", b"\x50", b"\x50\x00", b"\x81"])),
    )
    cmd = st.one_of(item, item, st.tuples(st.just("op"), st.sampled_from(SAFE_OPS)))
    c["scriptsig"] = draw(st.lists(cmd, max_size=5))
    c["witness"] = draw(st.lists(item, max_size=6))
    c["shape"] = draw(st.sampled_from(["free", "free", "keep_tail"]))
    return c


def check_nosig(case, ctx):
    if not tap_ok(case):
        raise Discard("taproot SINGLE without matching output")
    sp = Spend(case)
    typ, tx, idx = sp.typ, sp.tx, sp.idx
    tin = tx.tx_ins[idx]
    ctx.label("type:" + typ)
    ctx.nontrivial()
    # the pool of items an attacker who knows everything public (and owns other keys) can push
    pool = [b"", b"\x01", b"\x50", b"\x50" + bytes(8), bytes(64), bytes(65), JUNK_DER + b"\x01",
            sp.foreign.point.sec(), sp.foreign.point.xonly(), h160(sp.foreign.point.sec())]
    for p in sp.privs:
        pool += [p.point.sec(), p.point.xonly(), h160(p.point.sec()), p.point.sec(False)]
    if sp.redeem is not None:
        pool += [sp.redeem.raw_serialize()] * 4
    if sp.wscript is not None:
        pool += [sp.wscript.raw_serialize()] * 4
    if sp.tap_script is not None:
        pool += [sp.tap_script.raw_serialize()] * 3 + [sp.cb.serialize()] * 3
    # valid signatures, but by a key that is not in the script
    if typ in TAPROOT:
        if typ in TAPSCRIPT:
            tin.witness = Witness([sp.tap_script.raw_serialize(), sp.cb.serialize()])
        pool += [sp.tap_sig(sp.foreign)] * 2
        tin.witness = Witness()
    else:
        pool += [sp.ecdsa_sig(sp.foreign)] * 2

    def item(t):
        kind, v = t
        if kind == "pool":
            return pool[v % len(pool)]
        return bytes(v)

    ss = []
    for t in case["scriptsig"]:
        if t[0] == "op":
            ss.append(t[1])
        else:
            b = item(t)
            ss.append(b if b else 0)
    wit = [item(t) for t in case["witness"]]
    if case["shape"] == "keep_tail":
        # keep the structural tail a real spend would have, vary everything before it
        if typ in ("p2sh_multisig", "p2sh_p2wpkh", "p2sh_p2wsh_multisig"):
            ss = ss + [sp.redeem.raw_serialize()]
        if sp.wscript is not None:
            wit = wit + [sp.wscript.raw_serialize()]
        if sp.tap_script is not None:
            wit = wit + [sp.tap_script.raw_serialize(), sp.cb.serialize()]
        ctx.label("shape:keep_tail")
    if typ not in SEGWIT:
        # a witness on an input that spends no witness program (every second case keeps it)
        if case["which"] % 2 if "which" in case else len(wit) % 2:
            wit = []
        elif wit:
            ctx.label("witness_on_legacy_input")
            tx.segwit = True
    if ss and typ in SEGWIT and typ not in ("p2sh_p2wpkh", "p2sh_p2wsh_multisig"):
        ctx.label("nonempty_scriptsig_on_native_witness_output")
    if len(wit) == 1 and wit[0][:1] == b"\x50" and typ in TAPROOT:
        ctx.label("annex_only_witness")
    tin.script_sig = Script(ss)
    tin.witness = Witness(wit)
    try:
        with time_limit(20):
            st_, ok = attempt(tx.verify_input, idx)
    except CaseTimeout:
        ctx.label("timeout")
        return
    if st_ == "exc":
        ctx.label("timeout" if isinstance(ok, CaseTimeout) else "rejected_by_exception")
    else:
        ctx.label("rejected_false" if not ok else "ACCEPTED")
    require(not (st_ == "ok" and ok), f"nosig/{typ}:accepted_without_signature",
            f"scriptsig={tin.script_sig!r} witness={tin.witness!r} spk={sp.spk!r}"[:700])


SUBS = [
    Sub("signed_spends_verify", check_signed, strategy=lambda tier: base_case(),
        budget={"quick": 300, "thorough": 20000},
        required=["type:" + t for t in TYPES] + ["annex_committed", "mixed_sighash:tapscript",
                                                  "mixed_sighash:ecdsa"],
        nontrivial_rule="m-of-n with n >= 2, or a transaction with more than one input"),
    Sub("unauthorised_never_verifies", check_mutated, strategy=lambda tier: mut_case(),
        budget={"quick": 650, "thorough": 60000},
        required=["mut:" + m for m in ALL_MUTS], nontrivial_rule="every case (all are negative)"),
    Sub("no_signature_no_spend", check_nosig, strategy=lambda tier: nosig_case(),
        budget={"quick": 1400, "thorough": 120000},
        required=["type:" + t for t in TYPES] + ["nonempty_scriptsig_on_native_witness_output",
                                                 "shape:keep_tail"],
        nontrivial_rule="every case (all are negative)"),
]
