"""C17 Merkle roots, BIP37 partial Merkle trees (SPV proofs), header hash / PoW / chain / compact
bits / retargeting."""
import hashlib
import struct
from io import BytesIO

from hypothesis import strategies as st

from buidl import helper as bh
from buidl.block import Block
from buidl.merkleblock import MerkleBlock
from buidl.network import HeadersMessage

from vf import gen
from vf.core import Discard, Sub, Violation, attempt, must, require
from vf.ref import merkle, p2p, txser

# one (coinbase-shaped) transaction in wire format, for blocks that carry their transactions
COINBASE_TX = txser.serialize({
    "version": 1, "segwit": False, "locktime": 0,
    "ins": [{"prev_tx": bytes(32), "prev_index": 0xFFFFFFFF, "script": [b"\x04\xff\xff\x00\x1d"],
             "sequence": 0xFFFFFFFF, "witness": []}],
    "outs": [{"amount": 50 * 10**8, "script": [0x51]}]})

RULE = (
    "merkle_root: lists of 1..300 (thorough 5000) ids (explicit + seed-derived, duplicates included) "
    "vs the reference root, also through merkle_parent(_level) and Block.validate_merkle_root. "
    "partial_tree_exhaustive: EVERY tree of 1..10 leaves x EVERY match subset (2046 proofs) built by "
    "a reference CPartialMerkleTree builder, fed to MerkleBlock through the constructor and through "
    "the wire parser: must validate and prove exactly the matched ids in order. "
    "partial_tree_sampled: the same for sampled trees up to 600 (thorough 5000) leaves with match "
    "density none/one/first/last/sparse/dense/all. tamper_soundness: honest proofs of sampled trees "
    "(1..40 leaves) with every single-bit alteration of the flag bytes, the root, bits 0..17 of the "
    "transaction count, every bit of every hash (<= 4 hashes; 26 sampled bits per hash above), and "
    "each dropped / duplicated / inserted / appended hash: hash and root alterations must not "
    "validate, and whatever validates must prove only ids of the block. header_pow / header_chain / "
    "compact_bits / retarget: generated headers and bits against Core's formulas (proof of work "
    "passes for ~20 % of the evaluated headers; chains are mined in the check by nonce iteration). "
    "Non-trivial: distinct case records; for trees, records with at least one matched id or n >= 2."
)
ASSUMPTIONS = [
    "compact bits with the sign bit (0x00800000) set encode negative targets, which no header may "
    "carry: not generated",
    "proof of work is compared with CheckProofOfWork under the most permissive (regtest) limit; "
    "hash == target cannot be generated without a SHA-256 preimage",
    "retargeting is modelled for previous targets in [2^18, 0xffff*256^26] (mainnet range; the "
    "256-bit overflow of Core's arithmetic cannot occur there); targets below 2^16 are covered by "
    "compact_bits only",
    "target 0 and targets >= 2^255 (exponent > 32) are outside the quantifier and not generated",
    "single-bit alterations of the transaction count are limited to bits 0..17: MerkleTree allocates "
    "the whole tree for the declared count (bit 31 would need ~32 GiB), which is a resource "
    "observation and not part of the property",
    "the transaction ids of one block are pairwise distinct (BIP30) in the proof sub-checks; lists with "
    "repeated ids are used for merkle_root only",
    "a proof with leftover hashes or a duplicated subtree (CVE-2012-2459) that validates is only "
    "required to yield ids of the block, as the statement says",
]


def selftest():
    merkle.selftest()
    p2p.selftest()


def derive(seed, i, tag=b""):
    return hashlib.sha256(bytes(seed) + tag + struct.pack("<I", i)).digest()


def ids_of(case):
    n = case["n"]
    head = [bytes(h) for h in case.get("head", [])][:n]
    ids = head + [derive(case["seed"], i) for i in range(len(head), n)]
    if case.get("dup") and n >= 2:
        ids[-1] = ids[-2]
    return ids


def distinct_ids_of(case):
    """transaction ids of one block are distinct (BIP30): the generated head may repeat an edge value"""
    ids = ids_of(case)
    seen = set()
    for i in range(len(ids)):
        if ids[i] in seen:
            ids[i] = derive(case["seed"], i, b"u")
        seen.add(ids[i])
    assert len(seen) == len(ids)
    return ids


N_EDGES = [1, 2, 3, 4, 5, 6, 7, 8, 9, 10, 11, 12, 13, 15, 16, 17, 31, 32, 33, 63, 64, 65, 127, 128,
           129, 255, 256, 257]


def sizes(tier, big):
    alts = [st.sampled_from(N_EDGES), st.integers(1, 40), st.integers(1, 300)]
    if big:
        hi = 5000 if tier == "thorough" else 600
        alts.append(st.sampled_from([e for e in (511, 512, 513, 600, 1023, 1024, 1025, 2047, 2048,
                                                 2049, 3519, 4095, 4096, 4097, 5000) if e <= hi]))
        alts.append(st.integers(1, hi))
    return st.one_of(*alts)


def shape_labels(n, ctx):
    if n == 1:
        ctx.label("n=1")
    if n & (n - 1) == 0:
        ctx.label("n_power_of_two")
    odd_levels = sum(1 for h in range(merkle.tree_height(n)) if merkle.tree_width(n, h) & 1)
    if odd_levels:
        ctx.label("has_odd_level")
    if n % 2 == 0 and odd_levels:
        ctx.label("even_n_with_odd_inner_level")


# ----------------------------------------------------------------- merkle root


def root_strategy(tier):
    return st.fixed_dictionaries({
        "n": sizes(tier, tier == "thorough"), "seed": st.binary(min_size=4, max_size=8),
        "head": st.lists(gen.b32(), max_size=4), "dup": st.booleans(),
        "bit": st.integers(0, 255), "idx": st.integers(0, 10**6),
    })


def check_root(case, ctx):
    ids = ids_of(case)
    n = len(ids)
    ctx.nontrivial()
    shape_labels(n, ctx)
    if case["dup"] and n >= 2:
        ctx.label("duplicate_ids")
    want = merkle.merkle_root(ids)
    lst = list(ids)
    got = must(bh.merkle_root, "root/merkle_root", lst)
    require(got == want, "root/merkle_root_value", f"n={n} got={got.hex()} want={want.hex()}")
    again = must(bh.merkle_root, "root/merkle_root_second_call", lst)
    require(again == want, "root/second_call_on_same_list_differs", f"n={n}")
    if n >= 2:
        require(bh.merkle_parent(ids[0], ids[1]) == merkle.sha256d(ids[0] + ids[1]), "root/merkle_parent")
        lvl = must(bh.merkle_parent_level, "root/merkle_parent_level", list(ids))
        require(lvl == merkle.merkle_levels(ids)[1], "root/merkle_parent_level_value", f"n={n}")
    # Block.validate_merkle_root works on display-order (reversed) values
    def block(root, txs):
        return Block(1, bytes(32), root[::-1], 0, b"\xff\xff\x00\x1d", bytes(4),
                     tx_hashes=[t[::-1] for t in txs])

    require(must(block(want, ids).validate_merkle_root, "root/validate") is True,
            "root/validate_merkle_root_refuses_correct_root", f"n={n}")
    bad_root = bytearray(want)
    bad_root[case["bit"] // 8] ^= 1 << (case["bit"] % 8)
    require(not must(block(bytes(bad_root), ids).validate_merkle_root, "root/validate"),
            "root/validate_merkle_root_accepts_wrong_root")
    j = case["idx"] % n
    bad_ids = list(ids)
    b = bytearray(bad_ids[j])
    b[case["bit"] // 8] ^= 1 << (case["bit"] % 8)
    bad_ids[j] = bytes(b)
    if merkle.merkle_root(bad_ids) != want:  # equal only when j is the first of a duplicated pair
        require(not must(block(want, bad_ids).validate_merkle_root, "root/validate"),
                "root/validate_merkle_root_accepts_altered_txid")


# ------------------------------------------------------- honest partial trees


def make_header(root, fields=None):
    f = fields or {}
    return p2p.header80(f.get("version", 0x20000000), bytes(f.get("prev", bytes(32))), root,
                        f.get("time", 1500000000), f.get("bits", 0x207FFFFF), f.get("nonce", 0))


def build_mb(header80, n, hashes, flags, via):
    if via == "parse":
        blob = merkle.merkleblock_msg(header80, n, hashes, flags)
        s = BytesIO(blob)
        mb = must(MerkleBlock.parse, "proof/parse", s)
        require(s.tell() == len(blob), "proof/parse_consumed", f"{s.tell()} of {len(blob)}")
        return mb
    hdr = Block.parse_header(BytesIO(header80))
    return MerkleBlock(hdr, n, [h[::-1] for h in hashes], flags)


def check_honest(ids, matches, ctx, fields=None):
    n = len(ids)
    root = merkle.merkle_root(ids)
    bits, hashes = merkle.build_partial(ids, matches)
    flags = merkle.bits_to_bytes(bits)
    matched = [t for t, m in zip(ids, matches) if m]
    ref = merkle.extract_matches(n, merkle.bytes_to_bits(flags), hashes)
    assert ref is not None and ref[0] == root and ref[1] == matched  # builder/extractor sanity
    header80 = make_header(root, fields)
    ctx.label("hashes_in_proof", len(hashes))
    for via in ("constructor", "parse"):
        mb = build_mb(header80, n, hashes, flags, via)
        if via == "parse":
            require(mb.total == n and mb.flags == flags and mb.hashes == [h[::-1] for h in hashes],
                    "proof/parse_fields")
            require(mb.hash() == merkle.sha256d(header80)[::-1], "proof/block_hash")
        st_, ok = attempt(mb.is_valid)
        if st_ == "exc":
            raise Violation(f"proof/honest_proof_raises:{type(ok).__name__}",
                            f"n={n} matched={[i for i, m in enumerate(matches) if m][:20]} "
                            f"{type(ok).__name__}: {ok}")
        require(ok is True, "proof/honest_proof_rejected",
                f"n={n} matched={[i for i, m in enumerate(matches) if m][:20]} via={via}")
        proved = must(mb.proved_txs, "proof/proved_txs")
        require([bytes(p) for p in proved] == [t[::-1] for t in matched], "proof/proved_ids_differ",
                lambda: f"n={n} matched idx={[i for i, m in enumerate(matches) if m][:20]} "
                        f"got {len(proved)} ids want {len(matched)}")
        # validating is a question about the proof, not an operation that uses it up: the same object
        # gives the same answer and the same ids when asked again
        st_, ok2 = attempt(mb.is_valid)
        require(st_ == "ok" and ok2 is True, "proof/honest_proof_rejected_on_second_validation",
                f"n={n} via={via}: {ok2!r}")
        proved2 = must(mb.proved_txs, "proof/proved_txs")
        require([bytes(p) for p in proved2] == [t[::-1] for t in matched],
                "proof/proved_ids_differ_on_second_validation", f"n={n} via={via}")


def exhaustive_enum(tier):
    for n in range(1, 11):
        for mask in range(1 << n):
            yield {"n": n, "mask": mask}


def check_exhaustive(case, ctx):
    n, mask = case["n"], case["mask"]
    ids = [merkle.sha256d(b"c17" + bytes([n, i])) for i in range(n)]
    matches = [(mask >> i) & 1 == 1 for i in range(n)]
    ctx.label(f"n={n}")
    ctx.nontrivial(n >= 2 or mask != 0)
    check_honest(ids, matches, ctx)


DENSITIES = ["none", "one", "first", "last", "sparse", "dense", "all", "all_but_one"]


def matches_of(case, n):
    d, seed = case["density"], case["seed"]
    r = int.from_bytes(derive(seed, 0, b"r")[:8], "big")
    if d == "none":
        return [False] * n
    if d == "all":
        return [True] * n
    if d in ("one", "first", "last", "all_but_one"):
        j = {"one": r % n, "first": 0, "last": n - 1, "all_but_one": r % n}[d]
        return [(i == j) != (d == "all_but_one") for i in range(n)]
    thr = 16 if d == "sparse" else 128
    out = []
    for blk in range((n + 31) // 32):
        out.extend(b < thr for b in derive(seed, blk, b"m"))
    return out[:n]


def sampled_strategy(tier):
    return st.fixed_dictionaries({
        "n": sizes(tier, True), "seed": st.binary(min_size=4, max_size=8),
        "head": st.lists(gen.b32(), max_size=3), "density": st.sampled_from(DENSITIES),
        "hdr": st.fixed_dictionaries({"version": st.integers(0, 2**31 - 1), "prev": gen.b32(),
                                      "time": st.integers(0, 2**32 - 1),
                                      "bits": st.integers(0, 2**32 - 1),
                                      "nonce": st.integers(0, 2**32 - 1)}),
    })


def check_sampled(case, ctx):
    ids = distinct_ids_of(case)
    n = len(ids)
    matches = matches_of(case, n)
    ctx.label("density:" + case["density"])
    shape_labels(n, ctx)
    if n > 300:
        ctx.label("n>300")
    if n > 10:
        ctx.label("n>10")
    ctx.nontrivial(n >= 2 or any(matches))
    check_honest(ids, matches, ctx, case["hdr"])


# ------------------------------------------------------------------ tampering

TAMPER = ["hash_bits", "flag_bits", "count_bits", "root_bits", "drop_hash", "dup_hash",
          "insert_hash", "append_hash"]
COUNT_BITS = 18


def tamper_strategy(tier):
    return st.fixed_dictionaries({
        "n": st.one_of(st.sampled_from([1, 2, 3, 4, 5, 6, 7, 8, 9, 11, 13, 16, 17, 31, 32, 33]),
                       st.integers(1, 40)),
        "seed": st.binary(min_size=4, max_size=8), "head": st.lists(gen.b32(), max_size=2),
        "density": st.sampled_from(DENSITIES), "kind": st.sampled_from(TAMPER),
        "extra": gen.b32(),
    })


def check_tamper(case, ctx):
    ids = distinct_ids_of(case)
    n = len(ids)
    idset = set(ids)
    matches = matches_of(case, n)
    kind = case["kind"]
    ctx.label("kind:" + kind)
    ctx.label("density:" + case["density"])
    ctx.nontrivial()
    root = merkle.merkle_root(ids)
    bits, hashes = merkle.build_partial(ids, matches)
    flags = merkle.bits_to_bytes(bits)
    extra = bytes(case["extra"])

    def flip(b, bit):
        b = bytearray(b)
        b[bit // 8] ^= 1 << (bit % 8)
        return bytes(b)

    # (description, n, hashes, flags, root, must_fail)
    alts = []
    if kind == "hash_bits":
        for i, h in enumerate(hashes):
            if len(hashes) <= 4:
                which = range(256)
            else:
                pick = derive(case["seed"], i, b"bits")
                which = sorted({0, 255} | {pick[k] for k in range(24)})
            for bit in which:
                alts.append((f"hash[{i}] bit {bit}", n, hashes[:i] + [flip(h, bit)] + hashes[i + 1:],
                             flags, root, True))
    elif kind == "flag_bits":
        for bit in range(len(flags) * 8):
            alts.append((f"flag bit {bit} (of {len(bits)} used)", n, hashes, flip(flags, bit), root,
                         False))
    elif kind == "count_bits":
        for bit in range(COUNT_BITS):
            alts.append((f"count {n} -> {n ^ (1 << bit)}", n ^ (1 << bit), hashes, flags, root, False))
    elif kind == "root_bits":
        for bit in range(256):
            alts.append((f"root bit {bit}", n, hashes, flags, flip(root, bit), True))
    elif kind == "drop_hash":
        for i in range(len(hashes)):
            alts.append((f"drop hash[{i}]", n, hashes[:i] + hashes[i + 1:], flags, root, False))
    elif kind == "dup_hash":
        for i in range(len(hashes)):
            alts.append((f"duplicate hash[{i}]", n, hashes[:i + 1] + hashes[i:], flags, root, False))
    elif kind == "insert_hash":
        for i in range(len(hashes) + 1):
            alts.append((f"insert at {i}", n, hashes[:i] + [extra] + hashes[i:], flags, root, False))
    elif kind == "append_hash":
        for x, name in ((extra, "random"), (hashes[0], "copy of first"), (hashes[-1], "copy of last"),
                        (root, "root"), (ids[0], "txid 0")):
            alts.append((f"append {name}", n, hashes + [x], flags, root, False))
    else:
        raise AssertionError(kind)

    n_valid = 0
    for what, n2, hs, fl, rt, must_fail in alts:
        mb = build_mb(make_header(rt), n2, hs, fl, "constructor")
        st_, ok = attempt(mb.is_valid)
        valid = st_ == "ok" and bool(ok)
        if not valid:
            ctx.label("rejected_by_false" if st_ == "ok" else "rejected_by_exception")
            continue
        n_valid += 1
        if must_fail:
            raise Violation(f"tamper/validates_after:{kind}", f"n={n} {what}")
        proved = [bytes(p)[::-1] for p in mb.proved_txs()]
        foreign = [p for p in proved if p not in idset]
        ref = merkle.extract_matches(n2, merkle.bytes_to_bits(fl), hs)
        if ref is None or ref[0] != rt:
            ctx.label("validates_where_core_would_refuse")  # informational, not asserted
        if foreign:
            if ref is not None and ref[0] == rt and any(m not in idset for m in ref[1]):
                raise Discard("the BIP37 structure itself proves a non-member here")
            raise Violation(f"tamper/proves_foreign_id:{kind}",
                            f"n={n} {what}: {len(foreign)} of {len(proved)} proved ids are not in the block")
        ctx.label("altered_proof_validates:" + kind)
    ctx.label("alterations", len(alts))
    ctx.label("alterations_validating", n_valid)


# ------------------------------------------------------------------ header PoW

POW_KINDS = ["exp32", "exp32", "mined31", "any_exponent", "zero_mantissa"]
MANT_EDGES = [0, 1, 0xFF, 0x100, 0xFFFF, 0x10000, 0x7FFF, 0x8000, 0x008000, 0x7FFFFF, 0x7FFFFE,
              0x400000, 0x3FFFFF, 0x00FFFF, 0x123456]


def mantissas():
    return st.one_of(st.sampled_from(MANT_EDGES), st.integers(0, 0x7FFFFF),
                     gen.uniform_int(0, 0x7FFFFF))


def exponents():
    return st.one_of(st.sampled_from([1, 2, 3, 4, 5, 28, 29, 30, 31, 32]), st.integers(1, 32))


def header_strategy(tier):
    return st.fixed_dictionaries({
        "kind": st.sampled_from(POW_KINDS),
        "version": st.one_of(st.integers(0, 2**32 - 1), gen.uniform_int(0, 2**32 - 1)),
        "prev": gen.b32(),
        "root": gen.b32(), "time": st.integers(0, 2**32 - 1), "nonce": st.integers(0, 2**32 - 1),
        "exp": exponents(), "mant": mantissas(),
    })


def check_header(case, ctx):
    kind = case["kind"]
    exp, mant = case["exp"], case["mant"]
    if kind in ("exp32", "mined31"):
        exp = 32 if kind == "exp32" else 31
        if kind == "mined31":
            mant |= 0x400000
        mant = max(mant, 1)
    elif kind == "zero_mantissa":
        mant = 0
    compact = (exp << 24) | mant
    ctx.label("kind:" + kind)
    ctx.nontrivial()

    version = case["version"] - 2**32 if case["version"] >= 2**31 else case["version"]

    def raw_for(nonce):
        return p2p.header80(version, bytes(case["prev"]), bytes(case["root"]), case["time"],
                            compact, nonce % 2**32)

    raws = [raw_for(case["nonce"])]
    if kind == "mined31":
        for k in range(1, 6000):
            if merkle.check_pow(raws[-1]):
                ctx.label("mined_pass_exp31")
                break
            raws.append(raw_for(case["nonce"] + k))
        raws = raws[-2:]  # the passing one (if found) and its failing predecessor
    for raw in raws:
        blk = must(Block.parse_header, "header/parse", BytesIO(raw))
        want_hash = merkle.sha256d(raw)[::-1]
        require(must(blk.hash, "header/hash") == want_hash, "header/hash_value", raw.hex())
        require(blk.id() == want_hash.hex(), "header/id_value")
        require(must(blk.serialize, "header/serialize") == raw, "header/serialize_differs")
        want = merkle.check_pow(raw)
        got = must(blk.check_pow, "header/check_pow")
        ctx.label("pow_pass" if want else "pow_fail")
        require(bool(got) == want, "header/check_pow_differs",
                f"bits={compact:#010x} hash={want_hash.hex()} lib={got} consensus={want}")
        # the block hash and the PoW test are about the 80 header bytes, also when the object carries its
        # transactions (a fully parsed block, or the constructor's txs argument)
        full = must(Block.parse, "header/parse_full_block", BytesIO(raw + b"\x01" + COINBASE_TX))
        require(full.hash() == want_hash and full.id() == want_hash.hex() and bool(full.check_pow()) == want,
                "header/hash_of_block_with_transactions", f"lib id {full.id()} want {want_hash.hex()}")
        blk.txs = list(full.txs)
        require(blk.hash() == want_hash and bool(blk.check_pow()) == want,
                "header/hash_after_transactions_were_attached")


# --------------------------------------------------------------- compact bits


def compact_strategy(tier):
    return st.fixed_dictionaries({
        "exp": exponents(), "mant": mantissas(),
        "tlen": st.one_of(st.sampled_from([1, 2, 3, 4, 5, 29, 30, 31, 32]), st.integers(1, 32)),
        "tbytes": st.binary(min_size=32, max_size=32),
        "tsel": st.sampled_from(["rand", "rand", "top_bit", "top_0x7f", "top_0x80", "one_byte",
                                 "power_of_256", "max_mainnet"]),
    })


def le4(compact):
    return struct.pack("<I", compact)


def check_compact(case, ctx):
    exp, mant = case["exp"], case["mant"]
    compact = (exp << 24) | mant
    ctx.nontrivial()
    ctx.label("exponent<3" if exp < 3 else "exponent=3" if exp == 3 else "exponent>3")
    want, neg, ovf = merkle.set_compact(compact)
    assert not neg and not ovf
    small = ":exponent<3" if exp < 3 else ""
    got = must(bh.bits_to_target, "compact/bits_to_target" + small, le4(compact))
    require(got == want, "compact/bits_to_target_value" + small,
            f"bits={compact:#010x} got={got!r} want={want:#x}")
    blk = Block(1, bytes(32), bytes(32), 0, le4(compact), bytes(4))
    require(must(blk.target, "compact/block_target" + small) == want, "compact/block_target_value" + small)

    def t2b(t, origin):
        cls = ":target<2^16" if t < 0x10000 else ""
        ctx.label("target<2^16" if t < 0x10000 else "target>=2^16")
        wantb = le4(merkle.get_compact(t))
        gotb = must(bh.target_to_bits, "compact/target_to_bits" + cls, t)
        require(bytes(gotb) == wantb, "compact/target_to_bits_value" + cls,
                f"{origin} target={t:#x} got={bytes(gotb).hex()} want={wantb.hex()}")

    if want > 0:
        t2b(want, "from_bits")
    # generated integer target in [1, 2^255)
    tlen, tb, sel = case["tlen"], bytearray(case["tbytes"]), case["tsel"]
    body = tb[:tlen]
    if sel == "top_bit":
        body[0] |= 0x80
    elif sel == "top_0x7f":
        body[0] = 0x7F
    elif sel == "top_0x80":
        body[0] = 0x80
    elif sel == "one_byte":
        body = bytearray([tb[0]])
    elif sel == "power_of_256":
        body = bytearray([1]) + bytearray(tlen - 1)
    t = int.from_bytes(body, "big")
    if sel == "max_mainnet":
        t = 0xFFFF << 208
    t %= 2**255
    if t == 0:
        t = 1
    ctx.label("tsel:" + sel)
    t2b(t, "generated")


# ------------------------------------------------------------------- retarget

TW = merkle.TARGET_TIMESPAN
DT_EDGES = [TW // 4 - 1, TW // 4, TW // 4 + 1, TW * 4 - 1, TW * 4, TW * 4 + 1, TW, TW - 1, TW + 1, 0, 1,
            -1, -TW, 2**31 - 1, 2**31, 2**32, 2**40, TW // 2, TW * 2]
MAX_TARGET = 0xFFFF << 208


def retarget_strategy(tier):
    return st.fixed_dictionaries({
        "exp": st.one_of(st.sampled_from([3, 4, 5, 26, 27, 28, 29]), st.integers(3, 29)),
        "mant": st.one_of(st.sampled_from([1, 0xFFFF, 0x10000, 0x7FFFFF, 0x00FFFF, 0x008000]),
                          st.integers(1, 0x7FFFFF)),
        "dt": st.one_of(st.sampled_from(DT_EDGES), gen.uniform_int(0, 5 * TW),
                        gen.uniform_int(TW // 4, TW * 4), st.integers(-5 * TW, 0),
                        st.integers(TW // 4 - 1000, TW // 4 + 1000),
                        st.integers(TW * 4 - 1000, TW * 4 + 1000)),
    })


def check_retarget(case, ctx):
    exp, mant, dt = case["exp"], case["mant"], case["dt"]
    value = merkle.set_compact((exp << 24) | mant)[0]
    if value < 2**18:
        exp += 3
    if exp == 29 and mant > 0xFFFF:
        mant >>= 8
    compact = (exp << 24) | mant
    value = merkle.set_compact(compact)[0]
    assert 2**18 <= value <= MAX_TARGET, hex(compact)
    ctx.nontrivial()
    if dt < TW // 4:
        ctx.label("below_quarter_clamp")
    elif dt > TW * 4:
        ctx.label("above_x4_clamp")
    else:
        ctx.label("within_clamps")
    if dt in (TW // 4, TW * 4):
        ctx.label("at_clamp")
    if dt in (TW // 4 - 1, TW // 4 + 1, TW * 4 - 1, TW * 4 + 1):
        ctx.label("next_to_clamp")
    want = merkle.next_work(compact, dt)
    if want == 0x1D00FFFF and value * min(max(dt, TW // 4), TW * 4) // TW > MAX_TARGET:
        ctx.label("limited_by_max_target")
    got = must(bh.calculate_new_bits, "retarget/calculate_new_bits", le4(compact), dt)
    require(bytes(got) == le4(want), "retarget/new_bits_differ",
            f"prev={compact:#010x} dt={dt} got={bytes(got).hex()} want={le4(want).hex()}")


# --------------------------------------------------------------- header chain

CHAIN_KINDS = ["valid", "valid", "broken_link", "bad_pow", "swapped"]


def chain_strategy(tier):
    return st.fixed_dictionaries({
        "kind": st.sampled_from(CHAIN_KINDS), "len": st.integers(1, 6), "idx": st.integers(0, 100),
        "bit": st.integers(0, 255), "first_prev": gen.b32(),
        "hdrs": st.lists(st.fixed_dictionaries({
            "version": st.integers(0, 2**31 - 1), "root": gen.b32(),
            "time": st.integers(0, 2**32 - 1), "nonce": st.integers(0, 2**32 - 1),
            "mant": st.integers(0x200000, 0x7FFFFF)}), min_size=6, max_size=6),
    })


def mine(fields, prev, want_pass):
    for k in range(2000):
        raw = p2p.header80(fields["version"], prev, bytes(fields["root"]), fields["time"],
                           (32 << 24) | fields["mant"], (fields["nonce"] + k) % 2**32)
        if merkle.check_pow(raw) == want_pass:
            return raw
    raise Discard("no nonce found")


def check_chain(case, ctx):
    kind, n = case["kind"], case["len"]
    if kind == "swapped" and n < 2:
        kind = "valid"
    if kind == "broken_link" and n < 2:
        n = 2
    ctx.label("kind:" + kind)
    ctx.label(f"len={n}")
    ctx.nontrivial()
    idx = case["idx"] % n
    if kind == "broken_link":
        idx = 1 + case["idx"] % (n - 1)
    raws = []
    prev = bytes(case["first_prev"])
    for i in range(n):
        p = prev
        if kind == "broken_link" and i == idx:
            b = bytearray(p)
            b[case["bit"] // 8] ^= 1 << (case["bit"] % 8)
            p = bytes(b)
        raw = mine(case["hdrs"][i], p, not (kind == "bad_pow" and i == idx))
        raws.append(raw)
        prev = merkle.sha256d(raw)
    if kind == "swapped":
        j = case["idx"] % (n - 1)
        raws[j], raws[j + 1] = raws[j + 1], raws[j]
    want = merkle.chain_valid(raws)
    assert want == (kind == "valid")
    ctx.label("chain_valid" if want else "chain_invalid")
    msg = must(HeadersMessage.parse, "chain/parse", BytesIO(p2p.headers_msg(raws)))
    got = must(msg.is_valid, "chain/is_valid")
    require(bool(got) == want, "chain/is_valid_differs:" + kind, f"len={n} idx={idx} lib={got}")
    msg2 = HeadersMessage([Block.parse_header(BytesIO(r)) for r in raws])
    require(bool(must(msg2.is_valid, "chain/is_valid")) == want, "chain/is_valid_differs_constructed:" + kind)
    for r, blk in zip(raws, msg.headers):
        require(blk.hash() == merkle.sha256d(r)[::-1], "chain/header_hash")


SUBS = [
    Sub("merkle_root", check_root, strategy=root_strategy, budget={"quick": 4000, "thorough": 60000},
        required=["n=1", "n_power_of_two", "has_odd_level", "even_n_with_odd_inner_level",
                  "duplicate_ids"]),
    Sub("partial_tree_exhaustive", check_exhaustive, kind="exhaustive", enumerate=exhaustive_enum,
        required=[f"n={n}" for n in range(1, 11)],
        nontrivial_rule="every (n, match subset) with n >= 2 or a matched id"),
    Sub("partial_tree_sampled", check_sampled, strategy=sampled_strategy,
        budget={"quick": 3000, "thorough": 60000},
        required=["density:" + d for d in DENSITIES] + ["n>10", "n>300", "has_odd_level",
                                                        "n_power_of_two", "even_n_with_odd_inner_level"],
        nontrivial_rule="n >= 2 or a matched id"),
    Sub("tamper_soundness", check_tamper, strategy=tamper_strategy,
        budget={"quick": 2500, "thorough": 60000},
        required=["kind:" + k for k in TAMPER] + ["rejected_by_false", "rejected_by_exception",
                                                  "altered_proof_validates:flag_bits"],
        nontrivial_rule="one case = one honest proof x every alteration of one kind"),
    Sub("header_pow", check_header, strategy=header_strategy,
        budget={"quick": 30000, "thorough": 1000000},
        required=["kind:" + k for k in sorted(set(POW_KINDS))] + ["pow_pass", "pow_fail", "mined_pass_exp31"]),
    Sub("compact_bits", check_compact, strategy=compact_strategy,
        budget={"quick": 30000, "thorough": 1000000},
        required=["exponent<3", "exponent=3", "exponent>3", "target<2^16", "target>=2^16"]),
    Sub("retarget", check_retarget, strategy=retarget_strategy,
        budget={"quick": 20000, "thorough": 600000},
        required=["below_quarter_clamp", "above_x4_clamp", "within_clamps", "at_clamp",
                  "next_to_clamp", "limited_by_max_target"]),
    Sub("header_chain", check_chain, strategy=chain_strategy,
        budget={"quick": 5000, "thorough": 150000},
        required=["kind:" + k for k in sorted(set(CHAIN_KINDS))] + ["chain_valid", "chain_invalid"]),
]


# ------------------------------------------------- header object history (added by the lead)
# ONE Block object: header fields are edited in place between queries (a nonce-grinding loop, an in-place
# tamper test): hash / id / serialize / check_pow / target and HeadersMessage.is_valid must always describe
# the CURRENT fields, whatever was asked before.

HDR_FIELDS = ["nonce", "timestamp", "bits", "version", "prev_block", "merkle_root"]
HDR_QUERIES = ["hash", "id", "serialize", "check_pow", "target", "chain"]


def hdr_hist_strategy(tier):
    op = st.one_of(
        st.tuples(st.just("q"), st.sampled_from(HDR_QUERIES), st.integers(0, 2**32 - 1)),
        st.tuples(st.just("e"), st.sampled_from(HDR_FIELDS), st.integers(0, 2**32 - 1)),
    )
    return st.fixed_dictionaries({
        "version": st.integers(0, 2**31 - 1), "prev": gen.b32(), "root": gen.b32(),
        "time": st.integers(0, 2**32 - 1), "nonce": st.integers(0, 2**32 - 1),
        "easy": st.booleans(), "other": gen.b32(),
        "ops": st.lists(op, min_size=3, max_size=10),
    })


def check_hdr_hist(case, ctx):
    f = {"version": case["version"], "prev_block": bytes(case["prev"]), "merkle_root": bytes(case["root"]),
         "timestamp": case["time"], "bits": 0x207FFFFF if case["easy"] else 0x1D00FFFF, "nonce": case["nonce"]}

    def raw():
        return p2p.header80(f["version"], f["prev_block"], f["merkle_root"], f["timestamp"], f["bits"], f["nonce"])

    blk = must(Block.parse_header, "hdrhist/parse", BytesIO(raw()))
    queried = edited_after = requery = False
    for op in case["ops"]:
        if op[0] == "e":
            _, field, v = op
            if queried:
                edited_after = True
            ctx.label("edit:" + field)
            if field == "nonce":
                f["nonce"] = v
                blk.nonce = struct.pack("<I", v)
            elif field == "timestamp":
                f["timestamp"] = v
                blk.timestamp = v
            elif field == "bits":
                f["bits"] = 0x207FFFFF if f["bits"] != 0x207FFFFF else 0x1F00FFFF
                blk.bits = struct.pack("<I", f["bits"])
            elif field == "version":
                f["version"] = v % 2**31
                blk.version = f["version"]
            elif field == "prev_block":
                f["prev_block"] = bytes(case["other"]) if f["prev_block"] != bytes(case["other"]) else bytes(32)
                blk.prev_block = f["prev_block"][::-1]  # Block keeps display order, the wire has it reversed
            else:
                f["merkle_root"] = hashlib.sha256(f["merkle_root"]).digest()
                blk.merkle_root = f["merkle_root"][::-1]
            continue
        _, what, v = op
        if queried and edited_after:
            requery = True
        queried = True
        tag = "_after_edit" if edited_after else ""
        r = raw()
        want_hash = merkle.sha256d(r)[::-1]
        if what == "hash":
            require(blk.hash() == want_hash, "hdrhist/stale_or_wrong_hash" + tag)
        elif what == "id":
            require(blk.id() == want_hash.hex(), "hdrhist/stale_or_wrong_id" + tag)
        elif what == "serialize":
            require(blk.serialize() == r, "hdrhist/stale_or_wrong_serialisation" + tag)
        elif what == "check_pow":
            require(bool(blk.check_pow()) == merkle.check_pow(r), "hdrhist/stale_or_wrong_check_pow" + tag,
                    f"bits={f['bits']:#x}")
            ctx.label("pow_pass" if merkle.check_pow(r) else "pow_fail")
        elif what == "target":
            require(blk.target() == merkle.set_compact(f["bits"])[0], "hdrhist/stale_or_wrong_target" + tag)
        elif what == "chain":
            # a two-header chain: this header followed by a child that commits to its CURRENT hash
            child_fields = dict(f, prev_block=want_hash[::-1], nonce=v)
            child_raw = p2p.header80(child_fields["version"], child_fields["prev_block"], child_fields["merkle_root"],
                                     child_fields["timestamp"], child_fields["bits"], child_fields["nonce"])
            child = Block.parse_header(BytesIO(child_raw))
            want = merkle.chain_valid([r, child_raw])
            st_, got = attempt(lambda: HeadersMessage([blk, child]).is_valid())
            require(st_ == "ok" and bool(got) == want, "hdrhist/stale_or_wrong_chain_validity" + tag,
                    f"want={want} got={st_}:{got!r}")
    ctx.nontrivial(requery)
    ctx.label("query_edit_query" if requery else "plain")


SUBS.append(Sub("header_object_history", check_hdr_hist, strategy=hdr_hist_strategy, stateful=True,
                budget={"quick": 6000, "thorough": 200000},
                required=["edit:" + x for x in HDR_FIELDS] + ["query_edit_query", "pow_pass", "pow_fail"],
                nontrivial_rule="history in which one header object is queried, edited in place and queried again"))
