"""C10 PSBT codec fixpoint; signing workflow exact and order independent; bad partial sigs rejected."""
from io import BytesIO

from hypothesis import strategies as st

from buidl.hd import HDPrivateKey
from buidl.psbt import PSBT, NamedHDPublicKey
from buidl.script import (P2PKHScriptPubKey, P2WPKHScriptPubKey, RedeemScript, Script, WitnessScript)
from buidl.tx import Tx, TxIn, TxOut

from vf.core import Discard, Sub, attempt, must, require
from vf.gen import rand_bytes
from vf.ref import ec, psbtmap, sighash, txser

RULE = (
    "workflow_orders: wallet kind (6 kinds) x 1<=m<=n<=4 x 1..3 inputs x subset S of signers x TWO "
    "independently generated histories (order of signers, each signing its own parsed copy, random "
    "combine sequence incl. the unsigned base and duplicates); both histories must give byte-identical "
    "combined PSBTs and final transactions; finalisation succeeds iff |S| >= m and then every input "
    "verifies (signatures recounted with the reference sighash/ECDSA). Every intermediate PSBT goes "
    "through the serialise/parse fixpoint check and an independent BIP174 map reader (unsigned tx in "
    "non-witness format, empty scriptSigs); unknown key-value pairs are injected into every map with a "
    "byte-level editor; global xpubs are present. bad_partial_sig: a partial signature replaced through "
    "the byte editor must make PSBT.parse raise. Non-trivial: n >= 2 with |S| >= 2, or unknown pairs."
)
ASSUMPTIONS = [
    "fee >= vbytes (a precondition of Tx.verify used by final_tx) is respected by the generator",
    "conflicting values for the same unknown key in two PSBTs being combined are not generated (BIP174 "
    "lets the combiner pick either)",
]

KINDS = ["p2pkh", "p2wpkh", "p2sh_p2wpkh", "p2sh", "p2wsh", "p2sh_p2wsh"]
MULTI = ("p2sh", "p2wsh", "p2sh_p2wsh")


def selftest():
    psbtmap.selftest()
    sighash.ensure_selftest()


def h160(b):
    import hashlib

    return hashlib.new("ripemd160", hashlib.sha256(b).digest()).digest()


@st.composite
def flow_cases(draw):
    kind = draw(st.sampled_from(KINDS))
    n = draw(st.integers(1, 4)) if kind in MULTI else 1
    m = draw(st.integers(1, n))
    n_in = draw(st.sampled_from([1, 1, 2, 2, 3]))
    subset = draw(st.lists(st.integers(0, n - 1), unique=True, max_size=n))
    if draw(st.integers(0, 3)) > 0 and len(subset) < m:
        subset = list(range(n))[: max(m, len(subset))]

    def history():
        return {"order": draw(st.permutations(subset)),
                "combine": draw(st.lists(st.tuples(st.integers(0, 9), st.integers(0, 9)), max_size=8)),
                "with_base": draw(st.booleans())}

    unknown = st.lists(st.tuples(st.integers(0x10, 0xFC), st.binary(max_size=6), st.binary(max_size=12)),
                       max_size=2, unique_by=lambda t: (t[0], t[1]))
    return {
        "kind": kind, "m": m, "n": n, "n_in": n_in, "subset": subset,
        "seeds": list(draw(st.tuples(*[rand_bytes(16) for _ in range(4)]))[:n]),
        "h1": history(), "h2": history(),
        "amounts": draw(st.lists(st.integers(20000, 10**9), min_size=3, max_size=3)),
        "prev_index": draw(st.lists(st.integers(0, 2), min_size=3, max_size=3)),
        "segwit_flag": draw(st.booleans()),
        "xpubs": draw(st.booleans()),
        "unknown_global": draw(unknown), "unknown_in": draw(unknown), "unknown_out": draw(unknown),
        "version": draw(st.sampled_from([1, 2])), "locktime": draw(st.sampled_from([0, 0, 500000, 1700000000])),
        "sequence": draw(st.sampled_from([0xFFFFFFFF, 0xFFFFFFFE, 0xFFFFFFFD, 0])),
        "bad": draw(st.sampled_from(["foreign_key_sig", "other_digest_sig", "flip_der_byte", "swap_sigs",
                                     "truncate_sig"])),
        "bad_pos": draw(st.integers(0, 200)),
    }


class Wallet:
    def __init__(self, case):
        self.case = case
        self.kind, self.m, self.n = case["kind"], case["m"], case["n"]
        self.roots = [HDPrivateKey.from_seed(s) for s in case["seeds"]]
        self.pubkey_lookup, self.redeem_lookup, self.witness_lookup, self.tx_lookup = {}, {}, {}, {}
        self.hd_pubs = {}
        self.inputs = []  # per input: dict(spk, secs, script_code, amount, segwit)
        self.child_secrets = []
        tx_ins = []
        total = 0
        for j in range(case["n_in"]):
            secs = []
            secrets = {}
            for s, root in enumerate(self.roots):
                child = NamedHDPublicKey.from_hd_priv(root, f"m/{s + 1}h/{j}")
                self.pubkey_lookup[child.sec()] = child
                self.pubkey_lookup[child.hash160()] = child
                secs.append(child.sec())
            secs_sorted = sorted(secs)
            cmds = [0x50 + self.m] + secs_sorted + [0x50 + self.n, 0xAE]
            k = self.kind
            redeem = ws = None
            if k == "p2pkh":
                spk = P2PKHScriptPubKey(h160(secs[0]))
                code = spk.raw_serialize()
            elif k == "p2wpkh":
                spk = P2WPKHScriptPubKey(h160(secs[0]))
                code = P2PKHScriptPubKey(h160(secs[0])).raw_serialize()
            elif k == "p2sh_p2wpkh":
                redeem = RedeemScript([0, h160(secs[0])])
                spk = redeem.script_pubkey()
                code = P2PKHScriptPubKey(h160(secs[0])).raw_serialize()
            elif k == "p2sh":
                redeem = RedeemScript(cmds)
                spk = redeem.script_pubkey()
                code = redeem.raw_serialize()
            elif k == "p2wsh":
                ws = WitnessScript(cmds)
                spk = ws.script_pubkey()
                code = ws.raw_serialize()
            else:
                ws = WitnessScript(cmds)
                redeem = ws.script_pubkey().redeem_script()
                spk = redeem.script_pubkey()
                code = ws.raw_serialize()
            if redeem is not None:
                self.redeem_lookup[redeem.hash160()] = redeem
            if ws is not None:
                self.witness_lookup[ws.sha256()] = ws
            amount = case["amounts"][j]
            idx = case["prev_index"][j]
            outs = [TxOut(1234 + i, Script([0x51])) for i in range(idx)] + [TxOut(amount, spk)]
            prev = Tx(1, [TxIn(bytes([j + 1]) * 32, 0)], outs, 0)
            self.tx_lookup[prev.hash()] = prev
            tx_ins.append(TxIn(prev.hash(), idx, sequence=case["sequence"]))
            total += amount
            self.inputs.append({"spk": spk.raw_serialize(), "secs": secs_sorted, "code": code,
                                "amount": amount, "segwit": k not in ("p2pkh", "p2sh"),
                                "prev": prev.hash(), "index": idx})
        if case["xpubs"]:
            for s, root in enumerate(self.roots):
                acct = NamedHDPublicKey.from_hd_priv(root, f"m/{s + 1}h")
                self.hd_pubs[acct.raw_serialize()] = acct
        self.out_spk = Script([0, b"\x42" * 20])
        self.out_amount = total - 6000
        self.tx = Tx(case["version"], tx_ins, [TxOut(self.out_amount, self.out_spk)], case["locktime"],
                     segwit=case["segwit_flag"])

    def ref_tx(self):
        c = self.case
        return {"version": c["version"], "segwit": False, "locktime": c["locktime"],
                "ins": [{"prev_tx": i["prev"], "prev_index": i["index"], "script": [], "sequence": c["sequence"],
                         "witness": []} for i in self.inputs],
                "outs": [{"amount": self.out_amount, "script": [0, b"\x42" * 20]}]}

    def digest(self, j):
        i = self.inputs[j]
        if i["segwit"]:
            return int.from_bytes(sighash.bip143(self.ref_tx(), j, i["code"], i["amount"], 1), "big")
        return int.from_bytes(sighash.legacy(self.ref_tx(), j, i["code"], 1), "big")

    def count_valid(self, j, sigs):
        """number of distinct script keys with a valid signature among sigs"""
        z = self.digest(j)
        good = set()
        for sig in sigs:
            if len(sig) < 9 or sig[-1] != 1:
                continue
            rs = ec.der_parse_strict(sig[:-1])
            if rs is None:
                continue
            for sec in self.inputs[j]["secs"]:
                if ec.ecdsa_verify(ec.parse_sec(sec), z, rs[0], rs[1]):
                    good.add(sec)
        return len(good)


def fixpoint(blob, bucket):
    """serialise(parse(x)) must be a fixpoint on the serialiser's own output"""
    p = must(PSBT.parse, bucket + "/parse_of_own_output", BytesIO(blob))
    s2 = p.serialize()
    require(s2 == blob, bucket + "/reserialisation_differs", f"{blob.hex()[:300]} -> {s2.hex()[:300]}")
    st_, m = attempt(psbtmap.parse, blob)
    require(st_ == "ok", bucket + "/not_a_bip174_psbt", f"{m}")
    for i in m["tx"]["ins"]:
        require(i["script_sig"] == b"", bucket + "/unsigned_tx_has_scriptsig")
    return p


def inject_unknowns(blob, case):
    m = psbtmap.parse(blob)
    for t, kd, v in case["unknown_global"]:
        m["global"].append((bytes([t]) + bytes(kd), bytes(v)))
    for t, kd, v in case["unknown_in"]:
        for mm in m["inputs"]:
            mm.insert(0, (bytes([t]) + bytes(kd), bytes(v)))
    for t, kd, v in case["unknown_out"]:
        for mm in m["outputs"]:
            mm.append((bytes([t]) + bytes(kd), bytes(v)))
    return psbtmap.serialize(m)


def run_history(w, base, hist, ctx):
    blobs = []
    for s in hist["order"]:
        p = must(PSBT.parse, "workflow/parse_base", BytesIO(base))
        ok = must(p.sign, "workflow/sign", w.roots[s])
        require(ok is True, "workflow/sign_found_nothing_to_sign")
        b = p.serialize()
        fixpoint(b, "codec/signed")
        blobs.append(b)
    if hist["with_base"] or not blobs:
        blobs.append(base)
    # a random sequence of pairwise combinations, then fold whatever is left
    for a, b in hist["combine"]:
        if len(blobs) < 2:
            break
        i, j = a % len(blobs), b % len(blobs)
        pa = PSBT.parse(BytesIO(blobs[i]))
        pb = PSBT.parse(BytesIO(blobs[j]))
        must(pa.combine, "workflow/combine", pb)
        merged = pa.serialize()
        if i != j:
            blobs = [x for k, x in enumerate(blobs) if k not in (i, j)] + [merged]
            ctx.label("combine_pair")
        else:
            blobs[i] = merged
            ctx.label("combine_with_itself")
    acc = PSBT.parse(BytesIO(blobs[0]))
    for x in blobs[1:]:
        must(acc.combine, "workflow/combine", PSBT.parse(BytesIO(x)))
    out = acc.serialize()
    fixpoint(out, "codec/combined")
    return out


def build_base(case, ctx):
    w = Wallet(case)
    psbt = must(PSBT.create, "workflow/create", w.tx, True, w.tx_lookup, w.pubkey_lookup, w.redeem_lookup,
                w.witness_lookup, w.hd_pubs)
    base = must(psbt.serialize, "codec/created:serialize")
    st_, m = attempt(psbtmap.parse, base)
    require(st_ == "ok", "codec/created:unsigned_tx_not_in_non_witness_format",
            f"segwit_flag={case['segwit_flag']}: {m}")
    fixpoint(base, "codec/created")
    if case["unknown_global"] or case["unknown_in"] or case["unknown_out"]:
        ctx.label("unknown_pairs")
        edited = inject_unknowns(base, case)
        p = must(PSBT.parse, "codec/unknown_pairs:parse", BytesIO(edited))
        base = p.serialize()
        fixpoint(base, "codec/unknown_pairs")
        m2 = psbtmap.parse(base)
        for t, kd, v in case["unknown_global"]:
            require((bytes([t]) + bytes(kd), bytes(v)) in m2["global"], "codec/unknown_global_pair_lost")
        for t, kd, v in case["unknown_in"]:
            require(all((bytes([t]) + bytes(kd), bytes(v)) in mm for mm in m2["inputs"]),
                    "codec/unknown_input_pair_lost")
        for t, kd, v in case["unknown_out"]:
            require(all((bytes([t]) + bytes(kd), bytes(v)) in mm for mm in m2["outputs"]),
                    "codec/unknown_output_pair_lost")
    if case["xpubs"]:
        ctx.label("global_xpubs")
        require(sum(1 for k, _ in psbtmap.parse(base)["global"] if k[:1] == b"\x01") == w.n,
                "codec/global_xpubs_lost")
    return w, base


def check_flow(case, ctx):
    w, base = build_base(case, ctx)
    S = case["subset"]
    kind = case["kind"]
    ctx.label("kind:" + kind)
    ctx.label("segwit_flag" if case["segwit_flag"] else "legacy_flag")
    ctx.nontrivial((w.n >= 2 and len(S) >= 2) or bool(case["unknown_global"] or case["unknown_in"]))
    c1 = run_history(w, base, case["h1"], ctx)
    c2 = run_history(w, base, case["h2"], ctx)
    require(c1 == c2, "workflow/combined_psbt_depends_on_order",
            f"h1={case['h1']} h2={case['h2']} kind={kind} m={w.m} n={w.n}")
    enough = len(S) >= w.m
    ctx.label("enough_signers" if enough else "too_few_signers")
    if len(S) > w.m:
        ctx.label("more_than_m_signers")

    def finish(blob):
        p = PSBT.parse(BytesIO(blob))
        p.finalize()
        fb = p.serialize()
        tx = p.final_tx()
        # extracting the transaction reads the PSBT: the object still serialises to the same (loadable) PSBT
        require(p.serialize() == fb, "workflow/final_tx_changed_the_psbt_object")
        return fb, tx

    st1, r1 = attempt(finish, c1)
    if not enough:
        require(st1 == "exc", "workflow/finalised_with_too_few_signers", f"|S|={len(S)} m={w.m} kind={kind}")
        return
    require(st1 == "ok", "workflow/finalise_fails_with_enough_signers",
            f"{type(r1).__name__}: {r1} |S|={len(S)} m={w.m} kind={kind} n_in={case['n_in']}")
    fb1, tx1 = r1
    fixpoint(fb1, "codec/finalised")
    fb2, tx2 = must(finish, "workflow/finalise_second_history", c2)
    require(tx1.serialize() == tx2.serialize() and fb1 == fb2, "workflow/final_tx_depends_on_order")

    # the same two orders again, entirely IN MEMORY (no serialise/parse between the steps): everybody
    # signs the same object in the history's order, or in-memory copies are combined in that order
    def in_memory(order, combine_objects):
        if combine_objects:
            parts = []
            for s in order:
                q = PSBT.parse(BytesIO(base))
                q.sign(w.roots[s])
                parts.append(q)
            acc = parts[0]
            for q in parts[1:]:
                acc.combine(q)
        else:
            acc = PSBT.parse(BytesIO(base))
            for s in order:
                acc.sign(w.roots[s])
        combined = acc.serialize()
        acc.finalize()
        return combined, acc.final_tx().serialize()

    # a coordinator that keeps the signers' PSBT objects: a fresh (unsigned) object collects them one by one.
    # Combining reads its argument; it must not change it, nor tie it to the collecting object
    def coordinator(order):
        parts = []
        for s in order:
            q = PSBT.parse(BytesIO(base))
            q.sign(w.roots[s])
            parts.append(q)
        snaps = [q.serialize() for q in parts]
        fresh = PSBT.parse(BytesIO(base))
        for k, q in enumerate(parts):
            fresh.combine(q)
            for k2, q2 in enumerate(parts):
                require(q2.serialize() == snaps[k2], "workflow/combine_changed_a_signers_psbt_object",
                        f"after combining part {k} of order {order}, part {k2} serialises differently")
        again = PSBT.parse(BytesIO(base))
        again.combine(parts[0])
        require(again.serialize() == snaps[0], "workflow/combine_of_one_signer_carries_other_signatures",
                f"order={order}")
        return fresh.serialize()

    if len(case["h2"]["order"]) >= 2:
        ctx.label("coordinator_path")
        cm = must(coordinator, "workflow/coordinator", list(case["h2"]["order"]))
        require(cm == c1, "workflow/combined_psbt_depends_on_order:coordinator")
    for hist, how in ((case["h1"], False), (case["h2"], True)):
        if not hist["order"]:
            continue
        cm, txm = must(in_memory, "workflow/in_memory_finalise", list(hist["order"]), how)
        ctx.label("in_memory_path")
        require(cm == c1, "workflow/combined_psbt_depends_on_order:in_memory")
        require(txm == tx1.serialize(), "workflow/final_tx_depends_on_order:in_memory",
                f"order={hist['order']} combine_objects={how} kind={kind} m={w.m} n={w.n}")
    for j in range(case["n_in"]):
        st_, ok = attempt(tx1.verify_input, j)
        require(st_ == "ok" and ok is True, "workflow/final_tx_input_does_not_verify", f"input {j} kind={kind}")
        tin = tx1.tx_ins[j]
        sigs = [c for c in tin.script_sig.commands if isinstance(c, bytes)] + list(tin.witness.items)
        require(w.count_valid(j, sigs) >= w.m, "workflow/fewer_than_m_valid_signatures_in_final_tx",
                f"input {j}")
    # the final transaction spends what the PSBT said
    ref = w.ref_tx()
    same = (tx1.version == ref["version"] and int(tx1.locktime) == ref["locktime"]
            and [(i.prev_tx, i.prev_index, int(i.sequence)) for i in tx1.tx_ins]
            == [(i["prev_tx"], i["prev_index"], i["sequence"]) for i in ref["ins"]]
            and [(o.amount, o.script_pubkey.raw_serialize()) for o in tx1.tx_outs]
            == [(o["amount"], txser.script_bytes(o["script"])) for o in ref["outs"]])
    require(same, "workflow/final_tx_is_a_different_transaction")


def check_bad_sig(case, ctx):
    if not case["subset"]:
        raise Discard("no signer")
    w, base = build_base(case, ctx)
    bad = case["bad"]
    ctx.label("bad:" + bad)
    ctx.nontrivial()
    p = PSBT.parse(BytesIO(base))
    # every signer of the subset signs: the invalid signature may be any of several partial signatures
    for s in (case["subset"][:1] if bad == "swap_sigs" else case["subset"]):  # swap needs a key without one
        require(p.sign(w.roots[s]) is True, "badsig/sign")
    blob = p.serialize()
    m = psbtmap.parse(blob)
    j = case["bad_pos"] % len(m["inputs"])
    entries = [(i, k, v) for i, (k, v) in enumerate(m["inputs"][j]) if k[:1] == b"\x02"]
    require(len(entries) >= 1, "badsig/no_partial_sig_in_signed_psbt")
    which = (case["bad_pos"] // 3) % len(entries)
    ctx.label("invalid_signature_is_the_first" if which == 0 else "invalid_signature_is_a_later_one")
    i, k, v = entries[which]
    z = w.digest(j)
    foreign = 0x1234567 + case["bad_pos"]
    if bad == "foreign_key_sig":
        r, s_ = ec.ecdsa_sign(foreign, z)
        v2 = ec.der(r, s_) + b"\x01"
    elif bad == "other_digest_sig":
        # a signature by the right key, but over another digest: take the signature from another input
        # (or sign a shifted digest with a foreign key when there is only one input)
        other = [(kk, vv) for jj, mm in enumerate(m["inputs"]) if jj != j for kk, vv in mm if kk[:1] == b"\x02"]
        if other:
            v2 = other[0][1]
            if v2 == v:
                raise Discard("identical signature")
        else:
            r, s_ = ec.ecdsa_sign(foreign, (z + 1) % ec.N)
            v2 = ec.der(r, s_) + b"\x01"
    elif bad == "flip_der_byte":
        b = bytearray(v)
        pos = 5 + case["bad_pos"] % (len(b) - 7)
        b[pos] ^= 0x01
        v2 = bytes(b)
    elif bad == "truncate_sig":
        v2 = v[:-2] + v[-1:]
    elif bad == "swap_sigs":
        if len(entries) < 2 and w.n < 2:
            raise Discard("single key")
        # attach the signature to a different public key of the script
        taken = {kk for _, kk, _ in entries}
        others = [sec for sec in w.inputs[j]["secs"] if sec != k[1:] and b"\x02" + sec not in taken]
        if not others:
            raise Discard("no key of the script is without a signature")
        m["inputs"][j][i] = (b"\x02" + others[0], v)
        v2 = None
    else:
        raise AssertionError(bad)
    if v2 is not None:
        m["inputs"][j][i] = (k, v2)
    edited = psbtmap.serialize(m)
    st_, r = attempt(PSBT.parse, BytesIO(edited))
    require(st_ == "exc", f"badsig/{bad}:invalid_partial_signature_accepted_on_load",
            f"kind={case['kind']} input={j}")


FUZZ_SEED_HEX = (
    "70736274ff0100750200000001268171371edff285e937adeea4b37b78000c0566cbb3ad64641713ca42171bf60000000000feff"
    "ffff02d3dff505000000001976a914d0c59903c5bac2868760e90fd521a4665aa7652088ac00e1f5050000000017a9143545e6e3"
    "3b832c47050f24d3eeb93c9c03948bc787b32e1300000100fda5010100000000010289a3c71eab4d20e0371bbba4cc698fa295c9"
    "463afa2e397f8533ccb62f9567e50100000017160014be18d152a9b012039daf3da7de4f53349eecb985ffffffff86f8aa43a71d"
    "ff1448893a530a7237ef6b4608bbb2dd2d0171e63aec6a4890b40100000017160014fe3e9ef1a745e974d902c4355943abcb34bd"
    "5353ffffffff0200c2eb0b000000001976a91485cff1097fd9e008bb34af709c62197b38978a4888ac72fef84e2c00000017a914"
    "339725ba21efd62ac753a9bcd067d6c7a6a39d05870247304402202712be22e0270f394f568311dc7ca9a68970b8025fdd3b2402"
    "29f07f8a5f3a240220018b38d7dcd314e734c9276bd6fb40f673325bc4baa144c800d2f2f02db2765c012103d2e15674941bad4a"
    "996372cb87e1856d3652606d98562fe39c5e9e7e413f210502483045022100d12b852d85dcd961d2f5f4ab660654df6eedcc794c"
    "0c33ce5cc309ffb5fce58d022067338a8e0e1725c197fb1a88af59f51e44e4255b20167c8684031c05d1f2592a01210223b72bee"
    "f0965d10be0778efecd61fcac6f79a4ea169393380734464f84f2ab300000000000000")


def fuzz_seeds(tier):
    seeds = [bytes.fromhex(FUZZ_SEED_HEX)]
    # a tiny hand-made PSBT: one input, one output, one unknown pair in each map
    tx = psbtmap.write_tx_legacy({"version": 2, "locktime": 0, "ins": [
        {"prev": bytes(32), "index": 0, "script_sig": b"", "sequence": 0xFFFFFFFF}],
        "outs": [{"amount": 1000, "spk": b"\x00\x14" + bytes(20)}]})
    seeds.append(psbtmap.serialize({"global": [(b"\x00", tx), (b"\xfc\x01", b"g")],
                                    "inputs": [[(b"\x01", (2000).to_bytes(8, "little") + b"\x16\x00\x14" + bytes(20)),
                                                (b"\x0fk", b"v")]],
                                    "outputs": [[(b"\x7f", b"")]]}))
    return seeds


def check_fuzz(case, ctx):
    """arbitrary bytes: whatever PSBT.parse accepts must serialise to a fixpoint that is a well-formed
    BIP174 PSBT whose unsigned transaction has empty scriptSigs"""
    data = case["data"]
    st_, p = attempt(PSBT.parse, BytesIO(data))
    if st_ == "exc":
        ctx.label("rejected")
        return
    ctx.label("parsed")
    if len(p.tx_obj.tx_ins) == 0:
        ctx.label("zero_input_psbt_out_of_domain")  # no unambiguous encoding of a 0-input transaction
        return
    ctx.nontrivial()
    st_, s1 = attempt(p.serialize)
    if st_ == "exc":
        require("too long" in str(s1), "fuzz/parsed_psbt_cannot_be_serialised", f"{type(s1).__name__}: {s1}")
        return
    st_, p2 = attempt(PSBT.parse, BytesIO(s1))
    require(st_ == "ok", "fuzz/own_serialisation_not_parseable", f"{type(p2).__name__}: {p2} data={data.hex()[:300]}")
    s2 = must(p2.serialize, "fuzz/reserialise")
    require(s1 == s2, "fuzz/serialisation_is_not_a_fixpoint", data.hex()[:300])
    st_, m = attempt(psbtmap.parse, s1)
    require(st_ == "ok", "fuzz/serialisation_is_not_bip174", f"{m}")
    for i in m["tx"]["ins"]:
        require(i["script_sig"] == b"", "fuzz/unsigned_tx_has_scriptsig")


SUBS = [
    Sub("fuzz_parse_fixpoint", check_fuzz, kind="fuzz", seeds=fuzz_seeds, max_len=4096,
        budget={"quick": 3000, "thorough": 800000}, required=["parsed", "rejected"],
        nontrivial_rule="input accepted by PSBT.parse",
        doc="quick: Hypothesis byte-level mutations of seed PSBTs; thorough: atheris coverage-guided campaign"),
    Sub("workflow_orders", check_flow, strategy=lambda tier: flow_cases(), stateful=True,
        budget={"quick": 64, "thorough": 4000},
        required=["kind:" + k for k in KINDS] + ["enough_signers", "too_few_signers", "more_than_m_signers",
                                                 "unknown_pairs", "global_xpubs", "segwit_flag",
                                                 "combine_pair"],
        nontrivial_rule="n >= 2 with at least two signers, or injected unknown key-value pairs"),
    Sub("bad_partial_sig_rejected", check_bad_sig, strategy=lambda tier: flow_cases(),
        budget={"quick": 80, "thorough": 5000},
        required=["bad:" + b for b in ("foreign_key_sig", "other_digest_sig", "flip_der_byte", "swap_sigs",
                                       "truncate_sig")] + ["invalid_signature_is_a_later_one"]),
]
