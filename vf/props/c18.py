"""C18 BIP158 compact filters / BIP37 bloom filters: no false negatives, specified encoding."""
import hashlib
from io import BytesIO

from hypothesis import strategies as st

import buidl.compactfilter as cfm
import buidl.helper as bhelper
from buidl.bloomfilter import BloomFilter
from buidl.compactfilter import (
    CFHeadersMessage,
    CFilterMessage,
    CompactFilter,
    decode_gcs,
    decode_golomb,
    encode_gcs,
    encode_golomb,
    hash_to_range,
    hashed_items,
    pack_bits,
    serialize_gcs,
    unpack_bits,
)
from buidl.siphash import SipHash_2_4

from vf.core import Discard, Sub, must, require
from vf.ref import filters as ref

RULE = (
    "siphash / murmur3: keys, seeds (edges + uniform) and messages of every length 0..70 against "
    "references written from the SipHash paper and the MurmurHash3 description (one-shot, chunked "
    "update, range mapping). golomb: values over [0, 2^26) (edges around 2^19 and 2^26) and delta "
    "sequences against a reference BIP158 bit-stream coder, both directions. gcs: element sets of "
    "0..2000 distinct byte strings of 0..600 bytes (explicit edge lengths + bulk elements derived "
    "from a generated seed) and the CONSTRUCTED class 'two elements with equal hashed value' "
    "(deterministic birthday search with the reference SipHash); encoding == reference bytes, "
    "decoding == sorted hashed values, every inserted element is reported present by every way of "
    "building a filter object, re-serialisation and filter hash/header. headers: chains of 0..2000 "
    "filter hashes via constructor and wire parser. bloom: sizes 1..36000 bytes, 1..50 functions, "
    "32-bit tweaks, 0..50 items: bits == reference BIP37 positions, filterload layout. "
    "Non-trivial: gcs with >= 1 element, headers with >= 1 hash, bloom with >= 1 item, every "
    "distinct hash/golomb case."
)
ASSUMPTIONS = [
    "elements handed to the compact-filter builder are distinct byte strings (BIP158 filters a *set*; "
    "callers de-duplicate), duplicates are removed by construction in the generator",
    "CompactFilter.__contains__ only needs an object with raw_serialize(); a stub carrying the raw "
    "element bytes is used instead of buidl.script.Script",
    "csiphash (optional C backend of helper._siphash) is not installed: the pure-Python fallback runs",
    "Golomb-Rice parameters other than P=19 and filter types other than 'basic' are not exercised",
]

M = ref.BIP158_M
P = ref.BIP158_P
MAXLEN = 70


def selftest():
    ref.ensure_selftest()


class _Raw:
    """what CompactFilter.__contains__ needs from a script: raw_serialize()"""

    def __init__(self, b):
        self.b = b

    def raw_serialize(self):
        return self.b


def sha256d(b):
    return hashlib.sha256(hashlib.sha256(b).digest()).digest()


# ------------------------------------------------------------------ strategies shared


def messages():
    def of_len(n):
        return st.one_of(
            st.binary(min_size=n, max_size=n),
            st.sampled_from([b"\x00", b"\xff", b"\x80", b"\x7f"]).map(lambda c: c * n),
        )

    return st.integers(0, MAXLEN).flatmap(of_len)


KEY_EDGES = [bytes(16), b"\xff" * 16, bytes(range(16)), b"0123456789ABCDEF",
             b"\x00" * 8 + b"\xff" * 8, b"\xff" * 8 + b"\x00" * 8, b"\x80" + bytes(15)]


def keys16():
    return st.one_of(st.sampled_from(KEY_EDGES), st.binary(min_size=16, max_size=16),
                     st.binary(min_size=16, max_size=16))


U32_EDGES = [0, 1, 2, 99, 0x7FFFFFFF, 0x80000000, 0x80000001, 0xFBA4C795, 0xFFFFFFFF - 0xFBA4C795,
             0x100000000 - 0xFBA4C795, 0x045B386B, 0xFFFFFFFE, 0xFFFFFFFF]


def u32():
    return st.one_of(st.sampled_from(U32_EDGES), st.integers(0, 0xFFFFFFFF),
                     st.binary(min_size=4, max_size=4).map(lambda b: int.from_bytes(b, "big")))


# ------------------------------------------------------------------ siphash


def sip_strategy(tier):
    return st.fixed_dictionaries(
        {
            "key": keys16(),
            "msg": messages(),
            "cuts": st.lists(st.integers(0, MAXLEN), max_size=5),
            "n": st.one_of(st.sampled_from([0, 1, 2, 252, 253, 2000]), st.integers(0, 2000)),
        }
    )


def check_sip(case, ctx):
    key, msg = bytes(case["key"]), bytes(case["msg"])
    ctx.nontrivial()
    ctx.label(f"len={len(msg)}")
    ctx.label(f"tail={len(msg) % 8}")
    want = ref.siphash24(key, msg)
    require(must(cfm._siphash, "siphash/compactfilter", key, msg) == want,
            "siphash/compactfilter_value", f"key={key.hex()} msg={msg.hex()}")
    require(must(bhelper._siphash, "siphash/helper", key, msg) == want,
            "siphash/helper_value", f"key={key.hex()} msg={msg.hex()}")
    h = SipHash_2_4(key, msg)
    require(h.hash() == want and h.hash() == want, "siphash/class_one_shot")
    require(h.digest() == want.to_bytes(8, "little"), "siphash/digest_bytes")
    # chunked updates
    cuts = sorted(c for c in case["cuts"] if c <= len(msg))
    pieces = []
    last = 0
    for c in cuts + [len(msg)]:
        pieces.append(msg[last:c])
        last = c
    if len(pieces) > 1:
        ctx.label("chunked")
    h = SipHash_2_4(key)
    for p in pieces:
        h.update(p)
    require(h.hash() == want, "siphash/chunked_update",
            f"key={key.hex()} pieces={[p.hex() for p in pieces]}")
    # a hasher forked with copy() after a prefix: both continue independently
    cut = cuts[0] if cuts else len(msg) // 2
    base = SipHash_2_4(key)
    base.update(msg[:cut])
    fork = must(base.copy, "siphash/copy")
    fork.update(msg[cut:])
    require(fork.hash() == want, "siphash/copy_then_finish", f"key={key.hex()} len={len(msg)} cut={cut}")
    base.update(b"\x01\x02\x03")
    require(base.hash() == ref.siphash24(key, msg[:cut] + b"\x01\x02\x03"), "siphash/original_after_copy")
    require(fork.hash() == want, "siphash/copy_changed_by_original")
    if cut >= 8:
        ctx.label("copy_after_full_block")
    # mapping into [0, N*M)
    f = case["n"] * M
    r = must(hash_to_range, "siphash/hash_to_range", key, msg, f)
    require(r == (want * f) >> 64, "siphash/range_mapping", f"f={f} got={r}")
    require(f == 0 or 0 <= r < f, "siphash/range_bounds")


# ------------------------------------------------------------------ murmur3


def mur_strategy(tier):
    return st.fixed_dictionaries({"seed": u32(), "msg": messages()})


def check_mur(case, ctx):
    seed, msg = case["seed"], bytes(case["msg"])
    ctx.nontrivial()
    ctx.label(f"len={len(msg)}")
    ctx.label(f"tail={len(msg) % 4}")
    if seed >= 2**31:
        ctx.label("seed>=2^31")
    want = ref.murmur3_32(msg, seed)
    got = must(bhelper.murmur3, "murmur3/call", msg, seed=seed)
    require(got == want, "murmur3/value", f"seed={seed:#x} msg={msg.hex()} got={got:#x} want={want:#x}")
    if seed == 0:
        ctx.label("seed=0")
        require(must(bhelper.murmur3, "murmur3/call_default", msg) == want, "murmur3/default_seed")


# ------------------------------------------------------------------ golomb

X_EDGES = [0, 1, 2, 2**19 - 2, 2**19 - 1, 2**19, 2**19 + 1, 2**20 - 1, 2**20, 2**20 + 2**18,
           M - 1, M, M + 1, 2**25, 2**26 - 2**19 - 1, 2**26 - 2**19, 2**26 - 2, 2**26 - 1]


def xs():
    return st.one_of(
        st.sampled_from(X_EDGES),
        st.integers(0, 2**26 - 1),
        st.integers(0, 2**21),
        st.binary(min_size=4, max_size=4).map(lambda b: int.from_bytes(b, "big") % 2**26),
        st.tuples(st.integers(0, 127), st.sampled_from([0, 1, 2**18, 2**19 - 1])).map(
            lambda t: (t[0] << 19) | t[1]),
    )


def gol_strategy(tier):
    return st.fixed_dictionaries(
        {
            "xs": st.lists(xs(), min_size=1, max_size=12),
            "trailer": st.lists(st.integers(0, 1), max_size=9),
            "raw": st.binary(max_size=24),
        }
    )


def check_gol(case, ctx):
    ctx.nontrivial()
    values = list(case["xs"])
    trailer = list(case["trailer"])
    require(cfm.GOLOMB_P == P and cfm.GOLOMB_M == M, "golomb/parameters",
            f"P={cfm.GOLOMB_P} M={cfm.GOLOMB_M}")
    for x in values:
        q = x >> P
        ctx.label("q=0" if q == 0 else ("q=127" if q == 127 else "q>=1"))
        if x in (0, 2**19 - 1, 2**19, 2**26 - 1):
            ctx.label(f"x={x}")
        want_bits = ref.golomb_bits(x)
        bits = must(encode_golomb, "golomb/encode", x, P)
        got_bits = [int(b) for b in bits]
        require(all(b in (0, 1) for b in got_bits) and got_bits == want_bits, "golomb/encode_bits",
                f"x={x} got={got_bits} want={want_bits}")
        # decoding inverts and consumes exactly the code word
        stream = got_bits + trailer
        back = must(decode_golomb, "golomb/decode", stream, P)
        require(back == x, "golomb/decode_value", f"x={x} got={back}")
        require(stream == trailer, "golomb/decode_consumption", f"x={x} left={len(stream)}")
        # packing
        w = ref.BitWriter()
        ref.golomb_write(w, x)
        packed = must(pack_bits, "golomb/pack", list(got_bits))
        require(packed == w.getvalue(), "golomb/pack_bits", f"x={x} got={packed.hex()}")
        un = must(unpack_bits, "golomb/unpack", packed)
        require(len(un) == 8 * len(packed) and un[:len(want_bits)] == want_bits
                and not any(un[len(want_bits):]), "golomb/unpack_bits", f"x={x}")
    # a sequence of deltas (zero deltas = equal neighbours included)
    if any(v == 0 for v in values[1:]):
        ctx.label("zero_delta")
    items = []
    cur = 0
    for v in values:
        cur += v
        items.append(cur)
    want = ref.gcs_serialize(items)
    got = must(serialize_gcs, "golomb/serialize_gcs", list(items))
    require(got == want, "golomb/sequence_encoding", f"items={items} got={got.hex()} want={want.hex()}")
    back = must(decode_gcs, "golomb/decode_gcs", b"", want)
    require(back == items, "golomb/sequence_decoding", f"items={items} got={back}")
    # unpack / pack on arbitrary bytes
    raw = bytes(case["raw"])
    bits = must(unpack_bits, "golomb/unpack_raw", raw)
    want_bits = ref.BitReader(raw)
    require(bits == [want_bits.read(1) for _ in range(8 * len(raw))], "golomb/unpack_raw_bits")
    require(must(pack_bits, "golomb/pack_raw", list(bits)) == raw, "golomb/pack_unpack_roundtrip",
            raw.hex())


# ------------------------------------------------------------------ gcs

LEN_EDGES = [0, 1, 7, 8, 9, 15, 16, 17, 22, 23, 25, 34, 35, 67, 599, 600]


def element():
    return st.one_of(
        st.binary(max_size=40),
        st.tuples(st.sampled_from(LEN_EDGES), st.binary(min_size=1, max_size=8)).map(
            lambda t: expand(*t)),
        st.tuples(st.integers(0, 600), st.binary(min_size=1, max_size=8)).map(lambda t: expand(*t)),
    )


def expand(n, pattern):
    if n == 0:
        return b""
    return (pattern * (n // len(pattern) + 1))[:n]


def gcs_strategy(tier):
    branches = [st.just(0), st.just(0), st.integers(0, 30), st.integers(0, 30), st.integers(0, 30),
                st.integers(0, 30), st.integers(0, 200), st.integers(0, 200),
                st.sampled_from([250, 251, 252, 253, 254]),
                st.sampled_from([252, 253, 600, 1000, 2000])]
    if tier == "thorough":
        branches.append(st.integers(0, 2000))
    bulk = st.one_of(*branches)
    return st.fixed_dictionaries(
        {
            "hash": st.one_of(st.binary(min_size=32, max_size=32),
                              keys16().map(lambda k: k + bytes(16))),
            "explicit": st.lists(element(), max_size=8),
            "bulk": bulk,
            "bulk_seed": st.binary(min_size=4, max_size=4),
            "collide": st.sampled_from([0, 0, 0, 0, 1, 1, 2]),
            "prefix": st.binary(max_size=4),
            "prev": st.binary(min_size=32, max_size=32),
            "stop": st.binary(min_size=32, max_size=32),
        }
    )


def bulk_elements(seed, count):
    out = []
    for i in range(count):
        d = hashlib.sha256(seed + i.to_bytes(4, "big")).digest()
        length = d[0] % 41 if d[1] & 1 else int.from_bytes(d[2:4], "big") % 601
        out.append(expand(length, d[4:]))
    return out


def find_collisions(key, f, prefix, pairs, avoid):
    """deterministic birthday search: `pairs` disjoint pairs of distinct elements whose hashed
    values in [0, f) coincide"""
    seen = {}
    out = []
    limit = int(8 * f ** 0.5) + 64
    for ctr in range(min(limit, 1 << 24)):
        e = prefix + ctr.to_bytes(3, "big")
        if e in avoid:
            continue
        h = ref.hash_to_range(key, e, f)
        o = seen.pop(h, None)
        if o is None:
            seen[h] = e
            continue
        out.append((o, e))
        if len(out) == pairs:
            return out
    return None


def check_gcs(case, ctx):
    wire_hash = bytes(case["hash"])
    key = wire_hash[:16]
    block_hash = wire_hash[::-1]
    elements = []
    have = set()
    for e in [bytes(x) for x in case["explicit"]] + bulk_elements(bytes(case["bulk_seed"]), case["bulk"]):
        if e not in have:
            have.add(e)
            elements.append(e)
    pairs = case["collide"]
    if pairs:
        n = len(elements) + 2 * pairs
        found = find_collisions(key, n * M, bytes(case["prefix"]), pairs, have)
        if found is None:
            raise Discard("no collision within the search limit")
        for a, b in found:
            elements += [a, b]
        ctx.label(f"constructed_collision_pairs={pairs}")
    n = len(elements)
    assert len(set(elements)) == n
    ctx.nontrivial(n >= 1)
    hv = ref.hashed_set(key, elements)
    dup = len(set(hv)) < n
    assert dup or not pairs
    cls = "equal_hashed_values" if dup else "distinct_hashed_values"
    ctx.label(cls)
    ctx.label("n=0" if n == 0 else "n=1" if n == 1 else "n=2" if n == 2 else "n<253" if n < 253
              else "n>=253")
    if n >= 1000:
        ctx.label("n>=1000")
    if b"" in have:
        ctx.label("empty_element")
    if any(len(e) == 600 for e in elements):
        ctx.label("element_len=600")
    want = ref.gcs_serialize(hv)
    info = f"key={key.hex()} n={n}"
    require(cfm.GOLOMB_P == P and cfm.GOLOMB_M == M, "gcs/parameters")

    # construction
    got = must(encode_gcs, "gcs/encode", key, list(elements))
    require(got == want, f"gcs/encoding_differs:{cls}",
            f"{info} got={got[:80].hex()} want={want[:80].hex()}")
    require(must(hashed_items, "gcs/hashed_items", key, list(elements)) == hv,
            f"gcs/hashed_items_differ:{cls}", info)
    # decoding inverts encoding
    dec = must(decode_gcs, "gcs/decode", key, want)
    require(dec == hv, f"gcs/decode_differs:{cls}", info)
    require(must(serialize_gcs, "gcs/serialize", list(dec)) == want, f"gcs/reencode_differs:{cls}", info)

    # every inserted element is reported present, however the filter object was obtained
    wire = b"\x00" + wire_hash + ref.compact_size(len(want)) + want
    routes = [
        ("parse", lambda: CompactFilter.parse(key, want)),
        ("constructor", lambda: CompactFilter(key, hashed_items(key, list(elements)))),
        ("cfilter_message", lambda: CFilterMessage.parse(BytesIO(wire))),
    ]
    for name, build in routes:
        obj = must(build, "gcs/build_" + name)
        missing = 0
        first = None
        for e in elements:
            if not (_Raw(e) in obj):
                missing += 1
                if first is None:
                    first = e
        require(missing == 0, f"gcs/false_negative:{cls}",
                lambda: f"{info} route={name}: {missing} of {n} inserted elements reported absent, "
                        f"e.g. {first[:40].hex()} (len {len(first)})")
        if name == "cfilter_message":
            require(obj.filter_bytes == want and obj.block_hash == block_hash
                    and obj.filter_type == 0, "gcs/cfilter_message_fields")
            require(obj.cf.key == key, "gcs/cfilter_message_key",
                    f"key={obj.cf.key.hex()} want={key.hex()}")
            require(must(obj.hash, "gcs/message_hash") == sha256d(want), "gcs/message_filter_hash")
        else:
            ser = must(obj.serialize, "gcs/serialize_" + name)
            require(ser == want, f"gcs/reserialize_differs:{cls}",
                    f"{info} route={name} got={ser[:60].hex()} want={want[:60].hex()}")
            fh = must(obj.hash, "gcs/hash_" + name)
            require(fh == sha256d(want), f"gcs/filter_hash:{cls}", f"{info} route={name}")
            hm = must(CFHeadersMessage, "gcs/header", 0, bytes(case["stop"]), bytes(case["prev"]), [fh])
            require(hm.last_header == ref.filter_header(sha256d(want), bytes(case["prev"])),
                    "gcs/filter_header")
            # the object is unchanged by having been serialised and hashed
            require(must(obj.serialize, "gcs/serialize_again_" + name) == want,
                    f"gcs/second_serialisation_differs:{cls}", f"{info} route={name}")
            require(all(_Raw(e) in obj for e in elements[:50]), f"gcs/false_negative_after_serialise:{cls}",
                    f"{info} route={name}")


# ------------------------------------------------------------------ filter header chains


def hdr_strategy(tier):
    return st.fixed_dictionaries(
        {
            "ftype": st.one_of(st.just(0), st.integers(0, 255)),
            "stop": st.binary(min_size=32, max_size=32),
            "prev": st.one_of(st.just(bytes(32)), st.binary(min_size=32, max_size=32)),
            "hashes": st.lists(st.binary(min_size=32, max_size=32), max_size=6),
            "extra": st.one_of(st.just(0), st.just(0), st.integers(0, 40),
                               st.sampled_from([246, 247, 248, 252, 253, 1000, 1999, 2000])),
            "seed": st.binary(min_size=4, max_size=4),
            "split": st.integers(0, 2100),
        }
    )


def check_hdr(case, ctx):
    prev, stop = bytes(case["prev"]), bytes(case["stop"])
    hashes = [bytes(h) for h in case["hashes"]]
    hashes += [hashlib.sha256(bytes(case["seed"]) + i.to_bytes(4, "big")).digest()
               for i in range(case["extra"])]
    n = len(hashes)
    ctx.nontrivial(n >= 1)
    ctx.label("count=0" if n == 0 else "count=1" if n == 1 else "count<253" if n < 253
              else "count>=253")
    chain = ref.header_chain(prev, hashes)
    want_last = chain[-1] if chain else prev
    m = must(CFHeadersMessage, "headers/constructor", case["ftype"], stop, prev, list(hashes))
    require(m.last_header == want_last, "headers/last_header_constructor",
            f"n={n} got={m.last_header.hex()} want={want_last.hex()}")
    wire = (bytes([case["ftype"]]) + stop[::-1] + prev + ref.compact_size(n) + b"".join(hashes))
    s = BytesIO(wire)
    p = must(CFHeadersMessage.parse, "headers/parse", s)
    require(s.tell() == len(wire), "headers/parse_consumption")
    require(p.filter_type == case["ftype"] and p.stop_hash == stop
            and p.previous_filter_header == prev and list(p.filter_hashes) == hashes,
            "headers/parsed_fields", f"n={n}")
    require(p.last_header == want_last, "headers/last_header_parsed", f"n={n}")
    # chaining two messages == one message
    k = case["split"] % (n + 1)
    a = must(CFHeadersMessage, "headers/constructor", case["ftype"], stop, prev, hashes[:k])
    require(a.last_header == (chain[k - 1] if k else prev), "headers/intermediate_header", f"k={k}")
    b = must(CFHeadersMessage, "headers/constructor", case["ftype"], stop, a.last_header, hashes[k:])
    require(b.last_header == want_last, "headers/chain_split", f"n={n} k={k}")


# ------------------------------------------------------------------ bloom

SIZE_EDGES = [1, 2, 3, 10, 252, 253, 254, 4096, 35999, 36000]


def bloom_item():
    return st.one_of(
        st.binary(max_size=MAXLEN),
        st.sampled_from([20, 32, 33, 36, 65]).flatmap(lambda n: st.binary(min_size=n, max_size=n)),
        messages(),
    )


def bloom_strategy(tier):
    return st.fixed_dictionaries(
        {
            "size": st.one_of(st.sampled_from(SIZE_EDGES), st.integers(1, 8), st.integers(1, 300),
                              st.integers(1, 300), st.integers(1, 36000)),
            "nfuncs": st.one_of(st.sampled_from([1, 2, 5, 11, 49, 50]), st.integers(1, 50)),
            "tweak": u32(),
            "items": st.lists(bloom_item(), max_size=50),
            "flag": st.sampled_from([0, 1, 2]),
        }
    )


def check_bloom(case, ctx):
    size, nfuncs, tweak, flag = case["size"], case["nfuncs"], case["tweak"], case["flag"]
    items = [bytes(i) for i in case["items"]]
    ctx.nontrivial(len(items) >= 1)
    ctx.label("size=1" if size == 1 else "size=36000" if size == 36000 else "size<253" if size < 253
              else "size>=253")
    if nfuncs in (1, 50):
        ctx.label(f"nfuncs={nfuncs}")
    if tweak >= 2**31:
        ctx.label("tweak>=2^31")
    if (nfuncs - 1) * ref.BIP37_CONSTANT + tweak >= 2**32:
        ctx.label("seed_wraps_2^32")
    if not items:
        ctx.label("items=0")
    info = f"size={size} nfuncs={nfuncs} tweak={tweak}"
    bf = must(BloomFilter, "bloom/constructor", size, nfuncs, tweak)
    positions = []
    for it in items:
        must(bf.add, "bloom/add", it)
        positions += ref.bloom_positions(it, size, nfuncs, tweak)
    got = must(bf.filter_bytes, "bloom/filter_bytes")
    require(isinstance(got, bytes) and len(got) == size, "bloom/filter_length", info)
    for it in items:
        require(ref.bloom_contains(got, nfuncs, tweak, it), "bloom/false_negative",
                f"{info} item={it.hex()}")
    want = ref.bloom_bytes(size, positions)
    if got != want:
        extra = sum(bin(a & ~b).count("1") for a, b in zip(got, want))
        require(False, "bloom/bit_positions_differ",
                f"{info} items={len(items)} bits set outside the BIP37 positions: {extra}")
    msg = must(bf.filterload, "bloom/filterload", flag)
    require(msg.command == b"filterload", "bloom/filterload_command")
    require(msg.payload == ref.filterload_payload(want, nfuncs, tweak, flag),
            "bloom/filterload_payload", f"{info} flag={flag}")
    if flag == 1:
        require(must(bf.filterload, "bloom/filterload_default").payload == msg.payload,
                "bloom/filterload_default_flag")
    # adding the same items again changes nothing (idempotent insertion)
    for it in items[:3]:
        bf.add(it)
    require(bf.filter_bytes() == want, "bloom/readd_changes_bits")
    # a second filter made afterwards starts empty (nothing is shared between filter objects)
    bf2 = must(BloomFilter, "bloom/constructor", size, nfuncs, tweak)
    require(bf2.filter_bytes() == bytes(size), "bloom/new_filter_is_not_empty", info)
    if items:
        bf2.add(items[-1])
        require(bf2.filter_bytes() == ref.bloom_bytes(size, ref.bloom_positions(items[-1], size, nfuncs, tweak)),
                "bloom/second_filter_bits_differ", info)
        require(bf.filter_bytes() == want, "bloom/first_filter_changed_by_second", info)


LENS = [f"len={n}" for n in range(MAXLEN + 1)]
SUBS = [
    Sub("siphash", check_sip, strategy=sip_strategy, budget={"quick": 30000, "thorough": 900000},
        required=LENS + [f"tail={t}" for t in range(8)] + ["chunked", "copy_after_full_block"],
        nontrivial_rule="every distinct (key, message, split points, N)"),
    Sub("murmur3", check_mur, strategy=mur_strategy, budget={"quick": 30000, "thorough": 900000},
        required=LENS + [f"tail={t}" for t in range(4)] + ["seed>=2^31", "seed=0"],
        nontrivial_rule="every distinct (seed, message)"),
    Sub("golomb", check_gol, strategy=gol_strategy, budget={"quick": 16000, "thorough": 480000},
        required=["q=0", "q>=1", "q=127", "x=0", f"x={2**19 - 1}", f"x={2**19}", f"x={2**26 - 1}",
                  "zero_delta"],
        nontrivial_rule="every distinct list of values"),
    Sub("gcs", check_gcs, strategy=gcs_strategy, budget={"quick": 2400, "thorough": 72000},
        required=["equal_hashed_values", "distinct_hashed_values", "constructed_collision_pairs=1",
                  "constructed_collision_pairs=2", "n=0", "n=1", "n=2", "n<253", "n>=253",
                  "empty_element", "element_len=600"],
        nontrivial_rule="element set with >= 1 element"),
    Sub("headers", check_hdr, strategy=hdr_strategy, budget={"quick": 2400, "thorough": 72000},
        required=["count=0", "count=1", "count<253", "count>=253"],
        nontrivial_rule="chain with >= 1 filter hash"),
    Sub("bloom", check_bloom, strategy=bloom_strategy, budget={"quick": 2400, "thorough": 72000},
        required=["size=1", "size=36000", "size<253", "size>=253", "nfuncs=1", "nfuncs=50",
                  "tweak>=2^31", "seed_wraps_2^32", "items=0"],
        nontrivial_rule="filter with >= 1 inserted item"),
]
