"""Runner: tiers, seeds, sharding, replay, known findings, evidence, exit codes.

usage: python -m vf.run <ID> quick|thorough [--sub NAME] [--scale F] [--jobs N]
       python -m vf.run <ID> --replay PATH
exit 0: property held on everything explored (KNOWN-FINDING lines allowed)
exit 1: 'VIOLATION property=<id> replay=<path>' printed for each new bucket
exit 2: harness error (never prints VIOLATION)
"""
import argparse
import fnmatch
import glob
import hashlib
import importlib
import json
import multiprocessing
import os
import sys
import time
import traceback

HERE = os.path.dirname(os.path.dirname(os.path.abspath(__file__)))
REPO = os.environ.get("VF_REPO", "/repo")


def _setup_paths():
    deps = os.path.join(HERE, ".deps")
    for p in (deps, HERE, REPO):
        if p in sys.path:
            sys.path.remove(p)
        sys.path.insert(0, p)
    os.environ.setdefault("BUIDL_VERIF", "1")
    import buidl  # noqa

    bf = os.path.realpath(buidl.__file__)
    if not bf.startswith(os.path.realpath(REPO) + os.sep):
        raise SystemExit(f"HARNESS-ERROR buidl imported from {bf}, not from {REPO}")


_setup_paths()

from vf import core  # noqa: E402
from vf.core import HarnessError, StopRun, Violation  # noqa: E402


def load_prop(pid):
    mod = importlib.import_module(f"vf.props.{pid.lower()}")
    return mod


def _seed_for(seed, sub_name, shard):
    h = int.from_bytes(hashlib.sha256(sub_name.encode()).digest()[:4], "big")
    return (seed * 1000003 + h * 101 + shard) % (2**63)


def _find_sub(mod, name):
    for s in mod.SUBS:
        if s.name == name:
            return s
    raise HarnessError(f"no sub-check {name}")


def _hyp_run(sub, tier, hseed, n, rec, cap, raise_bucket=None, shrink=False):
    import hypothesis
    from hypothesis import HealthCheck, Phase, given, settings

    t0 = time.time()
    state = {"last_fail": None}
    phases = [Phase.generate, Phase.shrink] if shrink else [Phase.generate]

    @hypothesis.seed(hseed)
    @settings(
        max_examples=max(1, n),
        database=None,
        deadline=None,
        derandomize=False,
        phases=phases,
        suppress_health_check=list(HealthCheck),
        report_multiple_bugs=False,
        verbosity=hypothesis.Verbosity.quiet,
    )
    @given(sub.strategy(tier))
    def t(case):
        if time.time() - t0 > cap:
            if shrink:
                return  # stop failing: ends the shrink loop
            raise StopRun()
        try:
            rec.run_case(case, raise_bucket=raise_bucket)
        except Violation:
            state["last_fail"] = core.normalise(case)
            raise

    try:
        t()
    except StopRun:
        rec.stopped = True
    except HarnessError:
        raise
    except Violation:
        pass
    except Exception as e:  # Flaky etc. while shrinking
        if not shrink:
            if type(e).__name__ in ("Flaky", "FlakyFailure", "FlakyStrategyDefinition"):
                raise HarnessError(f"{sub.name}: hypothesis reported flakiness: {e}")
            raise
    return state["last_fail"]


def _shard_worker(args):
    pid, sub_name, tier, seed, shard, nshards, n, scale = args
    try:
        sys.setrecursionlimit(10000)
        mod = load_prop(pid)
        sub = _find_sub(mod, sub_name)
        rec = core.Recorder(sub, tier)
        cap = sub.wall_cap[tier] * max(1.0, scale)
        if sub.kind == "pbt":
            _hyp_run(sub, tier, _seed_for(seed, sub_name, shard), n, rec, cap)
        elif sub.kind == "exhaustive":
            t0 = time.time()
            for i, case in enumerate(sub.enumerate(tier)):
                if i % nshards != shard:
                    continue
                rec.run_case(case)
                if time.time() - t0 > cap:
                    rec.stopped = True
                    break
        elif sub.kind == "custom":
            sub.run_shard(sub, tier, _seed_for(seed, sub_name, shard), shard, nshards, n, rec)
        else:
            raise HarnessError(f"unknown kind {sub.kind}")
        r = rec.result()
        r["shard"] = shard
        return r
    except HarnessError as e:
        return {"sub": sub_name, "shard": shard, "harness_error": str(e)}
    except BaseException as e:  # noqa
        return {
            "sub": sub_name,
            "shard": shard,
            "harness_error": "".join(traceback.format_exception(e))[-4000:],
        }


def _shrink_worker(args):
    pid, sub_name, tier, seed, shard, n, bucket, cap = args
    try:
        sys.setrecursionlimit(10000)
        mod = load_prop(pid)
        sub = _find_sub(mod, sub_name)
        rec = core.Recorder(sub, tier)
        best = _hyp_run(
            sub, tier, _seed_for(seed, sub_name, shard), n, rec, cap,
            raise_bucket=bucket, shrink=True,
        )
        return core.to_jsonable(best) if best is not None else None
    except BaseException:  # noqa
        return None


def load_known():
    p = os.path.join(HERE, "known_findings.json")
    if not os.path.exists(p):
        return []
    with open(p) as f:
        return json.load(f).get("findings", [])


def known_match(known, pid, sub, bucket, case):
    """Only entries with status 'known' suppress; 'fixed' entries never do."""
    for k in known:
        if k.get("status") != "known" or k.get("property") != pid:
            continue
        if not fnmatch.fnmatchcase(f"{sub}/{bucket}", k.get("bucket", "")):
            continue
        cm = k.get("case_match") or {}
        ok = True
        for field, want in cm.items():
            cur = case
            for part in field.split("."):
                if isinstance(cur, dict) and part in cur:
                    cur = cur[part]
                else:
                    cur = None
                    break
            if cur != want:
                ok = False
                break
        if ok:
            return k
    return None


def check_one(sub, case, tier="quick"):
    """Replay: returns (bucket, detail) or None."""
    rec = core.Recorder(sub, tier)
    rec.run_case(case)
    for b, lst in rec.violations.items():
        return b, lst[0][1]
    return None


def write_replay(pid, sub_name, bucket, case, detail, prefix="new"):
    d = os.path.join(HERE, "replays", pid)
    os.makedirs(d, exist_ok=True)
    h = hashlib.sha256(f"{sub_name}/{bucket}".encode()).hexdigest()[:10]
    safe = "".join(c if c.isalnum() else "_" for c in bucket)[:40]
    path = os.path.join(d, f"{prefix}_{sub_name}_{safe}_{h}.json")
    with open(path, "w") as f:
        json.dump(
            {"property": pid, "sub": sub_name, "bucket": bucket, "detail": detail,
             "case": core.to_jsonable(case)},
            f, indent=1, sort_keys=True,
        )
    return path


def main(argv=None):
    ap = argparse.ArgumentParser()
    ap.add_argument("pid")
    ap.add_argument("tier", nargs="?", default=None)
    ap.add_argument("--replay")
    ap.add_argument("--sub", action="append")
    ap.add_argument("--scale", type=float, default=float(os.environ.get("VF_SCALE", "1")))
    ap.add_argument("--jobs", type=int, default=int(os.environ.get("VF_JOBS", "16")))
    ap.add_argument("--no-shrink", action="store_true")
    ap.add_argument("--list", action="store_true")
    a = ap.parse_args(argv)
    pid = a.pid.upper()
    tier = a.tier or os.environ.get("VERIF_TIER") or "quick"
    if tier not in ("quick", "thorough"):
        print(f"HARNESS-ERROR bad tier {tier}", file=sys.stderr)
        return 2
    try:
        seed = int(os.environ.get("VERIF_SEED", "1"))
    except ValueError:
        seed = 1
    strict = os.environ.get("VF_STRICT") == "1"
    t_start = time.time()
    try:
        mod = load_prop(pid)
        if hasattr(mod, "selftest"):
            with core.quiet():
                mod.selftest()
    except Exception as e:  # noqa
        print("HARNESS-ERROR " + "".join(traceback.format_exception(e))[-3000:], file=sys.stderr)
        return 2
    if a.list:
        for s in mod.SUBS:
            print(s.name, s.kind, s.budget)
        return 0
    known = load_known()

    # ------------------------------------------------------------------ replay
    if a.replay:
        with open(a.replay) as f:
            r = json.load(f)
        sub = _find_sub(mod, r["sub"])
        case = core.from_jsonable(r["case"])
        try:
            res = check_one(sub, case)
        except HarnessError as e:
            print(f"HARNESS-ERROR {e}", file=sys.stderr)
            return 2
        if res is None:
            print(f"replay ok: property={pid} sub={sub.name} holds for {a.replay}")
            return 0
        k = known_match(known, pid, sub.name, res[0], case)
        if k:
            print(f"KNOWN-FINDING: property={pid} {k['description']}")
            return 0
        print(f"bucket={res[0]} detail={res[1]}")
        print(f"VIOLATION property={pid} replay={a.replay}")
        return 1

    subs = [s for s in mod.SUBS if not a.sub or s.name in a.sub]
    found = {}  # (sub, bucket) -> dict(case, detail, shard, n)
    harness_errors = []
    known_hits = {}

    # ------------------------------------------------- regression replays first
    n_replayed = 0
    for path in sorted(glob.glob(os.path.join(HERE, "replays", pid, "reg_*.json"))):
        with open(path) as f:
            r = json.load(f)
        try:
            sub = _find_sub(mod, r["sub"])
        except HarnessError:
            continue
        if a.sub and sub.name not in a.sub:
            continue
        case = core.from_jsonable(r["case"])
        try:
            res = check_one(sub, case)
        except HarnessError as e:
            harness_errors.append(str(e))
            continue
        n_replayed += 1
        if res is not None:
            found.setdefault(
                (sub.name, res[0]),
                {"case": case, "detail": res[1], "shard": None, "n": 0, "path": path},
            )

    # ------------------------------------------------------------ sharded search
    tasks = []
    plan = {}
    for s in subs:
        n_total = max(1, int(s.budget[tier] * a.scale))
        if s.kind == "exhaustive":
            nshards = min(a.jobs, s.max_shards)
            per = 0
        else:
            mps = s.min_per_shard or (20 if n_total >= 2000 else 5)
            nshards = max(1, min(a.jobs, s.max_shards, n_total // mps or 1))
            per = -(-n_total // nshards)
        plan[s.name] = (nshards, per)
        for sh in range(nshards):
            tasks.append((pid, s.name, tier, seed, sh, nshards, per, a.scale))
    # interleave so that expensive subs start early on every core
    tasks.sort(key=lambda t: (t[4], t[1]))
    results = []
    ctx = multiprocessing.get_context("fork")
    with ctx.Pool(a.jobs) as pool:
        for r in pool.imap_unordered(_shard_worker, tasks, chunksize=1):
            results.append(r)

        per_sub = {}
        for r in results:
            if "harness_error" in r:
                harness_errors.append(f"{r['sub']}[{r['shard']}]: {r['harness_error']}")
                continue
            ps = per_sub.setdefault(
                r["sub"],
                {"evaluations": 0, "digests": set(), "classes": {}, "discarded": {},
                 "samples": [], "stopped": 0, "wall_max": 0.0},
            )
            ps["evaluations"] += r["evaluations"]
            ps["digests"].update(r["digests"])
            for k, v in r["classes"].items():
                ps["classes"][k] = ps["classes"].get(k, 0) + v
            for k, v in r["discarded"].items():
                ps["discarded"][k] = ps["discarded"].get(k, 0) + v
            for smp in reversed(r["samples"]):
                if len(ps["samples"]) < 3 and smp not in ps["samples"]:
                    ps["samples"].append(smp)
            ps["stopped"] += 1 if r["stopped"] else 0
            ps["wall_max"] = max(ps["wall_max"], r["wall"])
            for b, lst in r["violations"].items():
                for cj, d in lst:
                    found.setdefault(
                        (r["sub"], b),
                        {"case": core.from_jsonable(cj), "detail": d, "shard": r["shard"],
                         "n": plan[r["sub"]][1]},
                    )

        # -------------------------------------------------- classify + shrink
        new = {}
        for (sn, b), info in sorted(found.items()):
            k = known_match(known, pid, sn, b, info["case"])
            if k:
                known_hits.setdefault(k["description"], 0)
                known_hits[k["description"]] += 1
            else:
                new[(sn, b)] = info
        if new and not a.no_shrink:
            cap = 45 if tier == "quick" else 240
            jobs = []
            keys = []
            for (sn, b), info in new.items():
                sub = _find_sub(mod, sn)
                if sub.kind != "pbt" or info["shard"] is None:
                    continue
                keys.append((sn, b))
                jobs.append((pid, sn, tier, seed, info["shard"], info["n"], b, cap))
            if jobs:
                for key, best in zip(keys, pool.map(_shrink_worker, jobs, chunksize=1)):
                    if best is not None:
                        c = core.from_jsonable(best)
                        # keep the shrunk case only if it still fails in the same bucket
                        try:
                            res = check_one(_find_sub(mod, key[0]), c)
                        except HarnessError:
                            res = None
                        if res is not None and res[0] == key[1]:
                            new[key]["case"] = c
                            new[key]["detail"] = res[1]

    # ------------------------------------------------------------------ evidence
    all_digests = set()
    evaluations = n_replayed
    samples = []
    sub_ev = {}
    missing = []
    for s in subs:
        ps = per_sub.get(s.name)
        if not ps:
            continue
        evaluations += ps["evaluations"]
        all_digests.update(ps["digests"])
        samples.extend({"sub": s.name, "case": c} for c in ps["samples"][:2])
        miss = [c for c in s.required if ps["classes"].get(c, 0) == 0]
        if miss:
            missing.append((s.name, miss))
        sub_ev[s.name] = {
            "kind": s.kind,
            "evaluations": ps["evaluations"],
            "nontrivial_distinct": len(ps["digests"]),
            "nontrivial_rule": s.nontrivial_rule,
            "discarded_out_of_domain": ps["discarded"],
            "classes": dict(sorted(ps["classes"].items())),
            "exhaustive": s.kind == "exhaustive" and ps["stopped"] == 0,
            "budget_exhausted_shards": ps["stopped"],
            "shards": plan[s.name][0],
            "required_classes_missing": miss,
            "doc": s.doc,
        }
    wall = time.time() - t_start
    ev = {
        "property_id": pid,
        "tier": tier,
        "seed": seed,
        "level": "exploration",
        "coverage": {
            "evaluations": int(evaluations),
            "distinct_nontrivial": len(all_digests),
            "rule": getattr(mod, "RULE", "")
            + " | distinct_nontrivial = cardinality of the union over shards of 64-bit "
            "digests of case records for which the sub-check's oracle flagged the case "
            "non-trivial (per-sub rules under sub_checks).",
            "samples": samples[:12],
            "sub_checks": sub_ev,
            "regression_replays": n_replayed,
            "known_findings_hit": known_hits,
            "exhaustive": False,
        },
        "assumptions": list(getattr(mod, "ASSUMPTIONS", []))
        + [
            "pure-Python backend (pecc/phash) is what runs; the libsecp256k1 binding cecc.py "
            "cannot be executed in this sandbox",
            "reference models under /verif/vf/ref are trusted after their start-up self-tests "
            "against published vectors",
        ],
        "wall_s": round(wall, 2),
        "violations": len(new),
    }
    if not a.sub:
        os.makedirs(os.path.join(HERE, "evidence"), exist_ok=True)
        with open(os.path.join(HERE, "evidence", f"{pid}.json"), "w") as f:
            json.dump(ev, f, indent=1, sort_keys=True)

    # ------------------------------------------------------------------- verdict
    for d in sorted(known_hits):
        print(f"KNOWN-FINDING: property={pid} {d}")
    summary = ", ".join(
        f"{n}:{v['evaluations']}" + ("*" if v["budget_exhausted_shards"] else "")
        for n, v in sub_ev.items()
    )
    print(f"[{pid} {tier} seed={seed}] {evaluations} cases ({summary}) "
          f"nontrivial={len(all_digests)} wall={wall:.1f}s")
    if harness_errors:
        for h in harness_errors[:5]:
            print("HARNESS-ERROR " + h, file=sys.stderr)
        return 2
    if new:
        for (sn, b), info in sorted(new.items()):
            path = info.get("path") or write_replay(pid, sn, b, info["case"], info["detail"])
            print(f"bucket={sn}/{b} detail={info['detail'][:200]}")
            print(f"VIOLATION property={pid} replay={os.path.relpath(path, HERE)}")
        return 1
    if missing:
        print(f"WARNING required generator classes not reached: {missing}", file=sys.stderr)
        if strict:
            return 2
    return 0


if __name__ == "__main__":
    sys.exit(main())
