"""Strategies for structured transactions (see vf/ref/txser.py for the dict layout)."""
from hypothesis import strategies as st

PUSH_EDGES = [1, 2, 20, 32, 33, 65, 73, 74, 75, 76, 77, 80, 254, 255, 256, 257, 519, 520]
NON_PUSH_OPCODES = [0] + list(range(79, 256))
U32_EDGES = [0, 1, 2, 0xFD, 0xFFFF, 0x10000, 499999999, 500000000, 500000001, 1 << 22, 1 << 31,
             (1 << 31) - 1, 0xFFFFFFFE, 0xFFFFFFFF]
AMOUNT_EDGES = [0, 1, 546, 2099999997690000, 1 << 32, (1 << 63) - 1, 1 << 63, (1 << 64) - 1]
WIT_EDGES = [0, 1, 64, 65, 75, 76, 252, 253, 254, 255, 256, 65535, 65536, 70000]


def u32():
    return st.one_of(st.sampled_from(U32_EDGES), st.integers(0, 0xFFFFFFFF))


def amounts(maxv=(1 << 64) - 1):
    return st.one_of(
        st.sampled_from([a for a in AMOUNT_EDGES if a <= maxv]), st.integers(0, maxv),
        st.integers(0, 10**9),
    )


def expand(n, pattern):
    """n bytes built from a short generated pattern (Hypothesis cannot draw > 8 KiB per case)"""
    if n == 0:
        return b""
    return (pattern * (n // len(pattern) + 1))[:n]


def sized_bytes(lengths):
    return st.tuples(lengths, st.binary(min_size=1, max_size=12)).map(lambda t: expand(*t))


def data_push(max_len=520):
    lens = [n for n in PUSH_EDGES if n <= max_len]
    return st.one_of(
        sized_bytes(st.sampled_from(lens)),
        st.binary(min_size=1, max_size=min(max_len, 90)),
        sized_bytes(st.integers(1, max_len)),
    )


def token():
    return st.one_of(st.sampled_from(NON_PUSH_OPCODES), data_push())


def template_like_script():
    """The five standard scriptPubKey templates and NEAR MISSES of them: the same total size and outer
    opcodes with another push length, one opcode changed, or a neighbouring hash length (what a recogniser
    that looks at sizes or at the first and last bytes only would confuse with the real thing)."""
    def build(t):
        kind, h, near, op = t
        n = {"p2pkh": 20, "p2sh": 20, "p2wpkh": 20, "p2wsh": 32, "p2tr": 32}[kind]
        if near == "exact":
            d = h[:n]
        elif near == "shorter_push_same_size":
            d = h[: n - 1]
        elif near == "longer_hash":
            d = h[: n + 1]
        elif near == "shorter_hash":
            d = h[: n - 1]
        else:
            d = h[:n]
        filler = [op] if near == "shorter_push_same_size" else []
        if kind == "p2pkh":
            s = [0x76, 0xA9, d] + filler + [0x88, 0xAC]
        elif kind == "p2sh":
            s = [0xA9, d] + filler + [0x87]
        elif kind == "p2wpkh" or kind == "p2wsh":
            s = [0x00, d] + filler
        else:
            s = [0x51, d] + filler
        if near == "other_opcode":
            s = [op if (i == len(s) - 1 and isinstance(x, int)) else x for i, x in enumerate(s)]
            if kind in ("p2wpkh", "p2wsh", "p2tr"):
                s = [op] + s[1:]
        return s

    return st.tuples(
        st.sampled_from(["p2pkh", "p2sh", "p2wpkh", "p2wsh", "p2tr"]),
        st.binary(min_size=33, max_size=33),
        st.sampled_from(["exact", "shorter_push_same_size", "longer_hash", "shorter_hash", "other_opcode"]),
        st.sampled_from([0x61, 0x75, 0x51, 0x52, 0x60, 0xAC, 0x87, 0x88]),
    ).map(build)


def script(max_tokens=6, templates=False):
    plain = st.lists(token(), max_size=max_tokens)
    if not templates:
        return plain
    return st.one_of(plain, plain, plain, template_like_script())


def wire_script():
    """scripts of transactions generated for the wire-codec checks (C04): token lists and template look-alikes"""
    return script(templates=True)


def tiny_script():
    return st.lists(st.one_of(st.sampled_from(NON_PUSH_OPCODES), st.binary(min_size=1, max_size=3)),
                    max_size=2)


def witness_item():
    return st.one_of(
        sized_bytes(st.sampled_from(WIT_EDGES)),
        sized_bytes(st.integers(0, 70000)),
        st.binary(max_size=300),
        st.binary(max_size=40),
    )


def witness_stack():
    return st.lists(witness_item(), max_size=6)


def tx_in(scripts=script, witness=True):
    return st.fixed_dictionaries(
        {
            "prev_tx": st.binary(min_size=32, max_size=32),
            "prev_index": u32(),
            "script": scripts(),
            "sequence": u32(),
            "witness": witness_stack() if witness else st.just([]),
        }
    )


def tx_out(scripts=script):
    return st.fixed_dictionaries({"amount": amounts(), "script": scripts()})


@st.composite
def transactions(draw, allow_big_counts=True):
    segwit = draw(st.booleans())
    big = allow_big_counts and draw(st.integers(0, 9)) == 0
    if big:
        n_in = draw(st.sampled_from([1, 2, 252, 253, 254, 300]))
        n_out = draw(st.sampled_from([0, 1, 252, 253, 254, 300]))
        ins = draw(st.lists(tx_in(tiny_script, witness=False), min_size=n_in, max_size=n_in))
        outs = draw(st.lists(tx_out(tiny_script), min_size=n_out, max_size=n_out))
        if segwit:
            ins[0]["witness"] = draw(witness_stack().filter(lambda w: len(w) > 0))
    else:
        ins = draw(st.lists(tx_in(wire_script, witness=segwit), min_size=1, max_size=5))
        outs = draw(st.lists(tx_out(wire_script), min_size=0, max_size=5))
        if segwit and all(len(i["witness"]) == 0 for i in ins):
            ins[0]["witness"] = draw(witness_stack().filter(lambda w: len(w) > 0))
    if not segwit:
        for i in ins:
            i["witness"] = []
    return {
        "version": draw(u32()), "segwit": segwit, "locktime": draw(u32()),
        "ins": ins, "outs": outs,
    }
