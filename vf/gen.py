"""Shared Hypothesis strategies.  Every random choice of the harness lives in a
strategy so that shrinking and seeded replay work.

Measured on Hypothesis 6.168: in the generate phase about a third of the examples are mutations of
earlier ones, independent draws of the same shape are made EQUAL in ~45 % of the cases (span
duplication) and ``st.binary`` is all-zero in 20-30 % of the cases.  Material that is meant to be
uniform is therefore derived by hashing one drawn 64-bit salt together with a per-call-site label:
two call sites never collapse to the same value and the value space is spread evenly, while the case
record (which stores the derived value) keeps replay independent of the generator."""
import hashlib
import itertools

from hypothesis import strategies as st

from vf.ref.ec import N, P

_site = itertools.count(1)


def _salts():
    return st.integers(0, 2**64 - 1)


def _expand(salt, label, nbytes):
    out = b""
    ctr = 0
    while len(out) < nbytes:
        out += hashlib.sha256(b"vf:%d:%d:%d" % (salt, label, ctr)).digest()
        ctr += 1
    return out[:nbytes]


def edges_or(edges, base, p_edge=None):
    """Mix a list of edge values into a base strategy so that every run sees them."""
    return st.one_of(st.sampled_from(list(edges)), base)


def uniform_int(lo, hi):
    """An (almost) uniform integer in [lo, hi], independent of every other call site."""
    span = hi - lo + 1
    nbytes = (span.bit_length() + 7) // 8 + 8
    label = next(_site)
    return _salts().map(lambda s: lo + int.from_bytes(_expand(s, label, nbytes), "big") % span)


def rand_bytes(n):
    """n uniformly distributed bytes, independent of every other call site."""
    label = next(_site)
    return _salts().map(lambda s: _expand(s, label, n))


def choice(seq):
    """A uniformly distributed element of seq (st.sampled_from is visibly skewed by the engine's
    example mutation; class coverage of mutation catalogues should not depend on that)."""
    seq = list(seq)
    label = next(_site)
    return _salts().map(lambda s: seq[int.from_bytes(_expand(s, label, 8), "big") % len(seq)])


SECRET_EDGES = [
    1, 2, 3, N - 1, N - 2, N - 3,
    2**128 - 1, 2**128, 2**128 + 1,
    2**255 - 1, 2**255, 2**255 + 1,
    N // 2, N // 2 + 1, (N - 1) // 2,
    2**64, 2**192, 0x7F << 248, 0x80 << 248,
]
SECRET_EDGES = [e for e in SECRET_EDGES if 1 <= e < N]


def secrets():
    return st.one_of(
        st.sampled_from(SECRET_EDGES),
        uniform_int(1, N - 1),
        uniform_int(1, N - 1),
        uniform_int(1, N - 1),
        st.integers(1, 2**32),
        st.integers(1, 2**20).map(lambda d: N - d),
    )


DIGEST_EDGES = [
    0, 1, 2, N - 2, N - 1, N, N + 1, N + 2, 2**256 - 1, 2**256 - 2, P - 1, P, P + 1,
    2**255, 2**255 - 1, 2**128, 2 * N - 2**256 if 2 * N > 2**256 else 0,
]
DIGEST_EDGES = sorted({e for e in DIGEST_EDGES if 0 <= e < 2**256})


def digests():
    return st.one_of(
        st.sampled_from(DIGEST_EDGES),
        uniform_int(0, 2**256 - 1),
        uniform_int(0, 2**256 - 1),
        uniform_int(0, 2**256 - 1),
        uniform_int(N, 2**256 - 1),
        st.integers(0, 2**32),
    )


def b32():
    return st.one_of(
        st.sampled_from([bytes(32), b"\xff" * 32, b"\x00" * 31 + b"\x01", b"\x80" + bytes(31)]),
        rand_bytes(32),
        rand_bytes(32),
        rand_bytes(32),
        st.binary(min_size=32, max_size=32),
    )


def bytestr(lengths, max_uniform=300):
    """bytes with length drawn from the given edge lengths or uniformly"""
    return st.one_of(
        st.sampled_from(list(lengths)).flatmap(lambda n: st.binary(min_size=n, max_size=n)),
        st.binary(max_size=max_uniform),
    )
